//! Small helpers around burn tensors (construction from f64 data, extraction to f64).
#![allow(dead_code)]
use burn::prelude::*;
use burn::tensor::backend::AutodiffBackend;

pub type BF32 = burn::backend::Autodiff<burn::backend::NdArray<f32>>;
pub type BF64 = burn::backend::Autodiff<burn::backend::NdArray<f64>>;

pub fn t1<B: Backend>(v: &[f64]) -> Tensor<B, 1> {
    let td = TensorData::new(v.to_vec(), [v.len()]).convert::<B::FloatElem>();
    Tensor::<B, 1>::from_data(td, &B::Device::default())
}

pub fn t2<B: Backend>(rows: &[Vec<f64>]) -> Tensor<B, 2> {
    let n = rows.len();
    let d = if n > 0 { rows[0].len() } else { 0 };
    let flat: Vec<f64> = rows.iter().flatten().cloned().collect();
    let td = TensorData::new(flat, [n, d]).convert::<B::FloatElem>();
    Tensor::<B, 2>::from_data(td, &B::Device::default())
}

pub fn v<B: Backend, const D: usize>(t: &Tensor<B, D>) -> Vec<f64> {
    t.to_data().convert::<f64>().to_vec::<f64>().expect("tensor to f64")
}

/// rows of a [n, d] tensor
pub fn rows<B: Backend>(t: &Tensor<B, 2>) -> Vec<Vec<f64>> {
    let [n, d] = t.dims();
    let flat = v(t);
    (0..n).map(|i| flat[i * d..(i + 1) * d].to_vec()).collect()
}

/// [n, c, d] tensor -> nested vec
pub fn cube<B: Backend>(t: &Tensor<B, 3>) -> Vec<Vec<Vec<f64>>> {
    let [a, b, c] = t.dims();
    let flat = v(t);
    (0..a).map(|i| (0..b).map(|j| flat[(i * b + j) * c..(i * b + j + 1) * c].to_vec()).collect()).collect()
}

/// Gradient of sum_i f(x)_i wrt a batch of positions, the way HMC computes it.
pub fn batch_logp_and_grad<B: AutodiffBackend>(
    f: impl Fn(Tensor<B, 2>) -> Tensor<B, 1>,
    positions: &[Vec<f64>],
) -> (Vec<f64>, Vec<Vec<f64>>) {
    let pos = t2::<B>(positions).detach().require_grad();
    let lp = f(pos.clone());
    let g = pos.grad(&lp.backward()).expect("gradient");
    let gt = Tensor::<B, 2>::from_inner(g);
    (v(&lp), rows(&gt))
}
