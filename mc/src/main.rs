//! mc — bounded exhaustive exploration harness for mini-mcmc (see /verif/DESIGN.md).
//!
//! usage: mc <ID> <quick|thorough>            run the check of one property
//!        mc <ID> --replay <file>             re-run one recorded violating case
//! exit : 0 property held on everything explored; 1 VIOLATION printed; 2 machinery failure.

mod burnutil;
mod common;
mod digest;
mod e2;
mod zoo;
mod props;
mod refs;

use common::{Ctx, Tier};

fn main() {
    let args: Vec<String> = std::env::args().collect();
    if args.len() < 3 {
        eprintln!("usage: mc <ID> <quick|thorough> | mc <ID> --replay <file>");
        std::process::exit(2);
    }
    let id = args[1].to_uppercase();
    if id == "HOOKS" {
        std::process::exit(hooks_transparency(&args[2]));
    }
    let verif_dir = std::env::var("VERIF_DIR").unwrap_or_else(|_| "/verif".to_string());
    let seed: u64 = std::env::var("VERIF_SEED").ok().and_then(|s| s.parse().ok()).unwrap_or(0);
    if std::env::var("MC_LOUD_PANICS").is_err() {
        common::quiet_panics();
    }
    if args[2] == "--replay" {
        let path = args.get(3).cloned().unwrap_or_default();
        let body = std::fs::read_to_string(&path).unwrap_or_else(|e| {
            eprintln!("cannot read replay file {path}: {e}");
            std::process::exit(2);
        });
        let v: serde_json::Value = serde_json::from_str(&body).unwrap_or_else(|e| {
            eprintln!("cannot parse replay file {path}: {e}");
            std::process::exit(2);
        });
        let case = v.get("case").cloned().unwrap_or(serde_json::Value::Null);
        let ctx = Ctx::new(&id, Tier::Quick, seed, props::level_of(&id));
        match props::replay(&id, &ctx, &case) {
            Some(()) => {}
            None => {
                eprintln!("no replay support for {id}");
                std::process::exit(2);
            }
        }
        let n = ctx.n_violations();
        if n > 0 {
            println!("REPLAY: violation reproduced ({n})");
            // print them through the normal path but into a scratch evidence dir
            let code = ctx.finish(&format!("{verif_dir}/.scratch/replay"));
            std::process::exit(if code == 0 { 0 } else { 1 });
        } else {
            println!("REPLAY: case passes");
            std::process::exit(0);
        }
    }
    let tier = match args[2].as_str() {
        "quick" => Tier::Quick,
        "thorough" => Tier::Thorough,
        o => {
            eprintln!("unknown tier {o}");
            std::process::exit(2);
        }
    };
    // whole-run watchdog: a check must never hang (e.g. on a change that makes the code under test loop forever)
    let cap_s: u64 = std::env::var("MC_WALL_CAP_S").ok().and_then(|s| s.parse().ok()).unwrap_or(if tier == Tier::Quick { 1500 } else { 4 * 3600 });
    let wd_id = id.clone();
    std::thread::spawn(move || {
        std::thread::sleep(std::time::Duration::from_secs(cap_s));
        eprintln!("MACHINERY-ERROR [{wd_id}]: wall-clock cap of {cap_s} s exceeded (the code under test or the harness does not terminate); no verdict");
        std::process::exit(2);
    });
    let ctx = Ctx::new(&id, tier, seed, props::level_of(&id));
    let r = common::catch(|| props::run(&id, &ctx));
    match r {
        Ok(true) => {}
        Ok(false) => {
            eprintln!("unknown property {id}");
            std::process::exit(2);
        }
        Err(msg) => {
            ctx.machinery_error(format!("harness panicked outside a guarded region: {msg}"));
        }
    }
    let code = ctx.finish(&verif_dir);
    std::process::exit(code);
}

/// `mc HOOKS <path of the plain binary>`: the digest grid of `digest.rs` computed in this (hooks-on) build must equal,
/// member by member, the digests printed by the same code built against the library WITHOUT feature `verif`.
/// Exit 0 equal, 2 otherwise (a machinery failure: the hooks would not be pass-throughs; never a property verdict).
fn hooks_transparency(plain_bin: &str) -> i32 {
    let verif_dir = std::env::var("VERIF_DIR").unwrap_or_else(|_| "/verif".to_string());
    let tmp = format!("{verif_dir}/.scratch");
    let _ = std::fs::create_dir_all(&tmp);
    let out = match std::process::Command::new(plain_bin).arg(&tmp).stderr(std::process::Stdio::null()).output() {
        Ok(o) if o.status.success() => String::from_utf8_lossy(&o.stdout).to_string(),
        Ok(o) => {
            eprintln!("MACHINERY-ERROR [HOOKS]: plain binary failed: {:?}", o.status);
            return 2;
        }
        Err(e) => {
            eprintln!("MACHINERY-ERROR [HOOKS]: cannot run {plain_bin}: {e}");
            return 2;
        }
    };
    let plain: Vec<(String, String)> = out.lines().filter_map(|l| l.split_once('\t').map(|(a, b)| (a.to_string(), b.to_string()))).collect();
    let here: Vec<(String, String)> = digest::digests(&tmp).into_iter().map(|(k, v)| (k, format!("{v:016x}"))).collect();
    let mut bad = vec![];
    if plain.len() != here.len() {
        bad.push(format!("grid sizes differ: plain {} vs hooks-on {}", plain.len(), here.len()));
    }
    for ((ka, va), (kb, vb)) in plain.iter().zip(here.iter()) {
        if ka != kb || va != vb {
            bad.push(format!("{ka}: plain {va} vs hooks-on {kb} {vb}"));
        }
    }
    let distinct: std::collections::BTreeSet<&String> = here.iter().map(|(_, v)| v).collect();
    let report = serde_json::json!({
        "what": "behaviour digests of seeded MH/Gibbs/HMC/NUTS runs (run, run again, run_progress + RunStats), diagnostics and exports: library built with feature verif (inside mc) vs built without it (plain); equal = hooks are pass-throughs outside explorer sessions",
        "grid_members": here.len(), "distinct_digests": distinct.len(), "mismatches": bad,
        "digests": here.iter().map(|(k, v)| serde_json::json!([k, v])).collect::<Vec<_>>(),
    });
    let _ = std::fs::write(format!("{verif_dir}/hooks_transparency.json"), serde_json::to_string_pretty(&report).unwrap() + "\n");
    if bad.is_empty() {
        println!("[HOOKS] {} grid members ({} distinct digests): hooks-on build == plain build", here.len(), distinct.len());
        0
    } else {
        for b in &bad {
            eprintln!("MACHINERY-ERROR [HOOKS]: {b}");
        }
        2
    }
}
