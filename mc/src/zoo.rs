//! Deterministically built instances of the four samplers + harness targets, shared by several properties.
#![allow(dead_code)]
use crate::burnutil::*;
use burn::prelude::*;
use burn::tensor::backend::AutodiffBackend;
use mini_mcmc::core::{init_det, ChainRunner};
use mini_mcmc::distributions::{BatchedGradientTarget, Conditional, DiffableGaussian2D, Gaussian2D, GradientTarget, IsotropicGaussian, Proposal, Rosenbrock2D};
use mini_mcmc::gibbs::GibbsSampler;
use mini_mcmc::hmc::HMC;
use mini_mcmc::metropolis_hastings::MetropolisHastings;
use mini_mcmc::nuts::NUTS;
use ndarray::{arr1, arr2, Array3};
use num_traits::Float;
use rand::rngs::SmallRng;
use rand::{Rng, SeedableRng};

pub type MH64 = MetropolisHastings<f64, f64, Gaussian2D<f64>, IsotropicGaussian<f64>>;

pub fn mh_target() -> Gaussian2D<f64> {
    Gaussian2D { mean: arr1(&[0.0, 1.0]), cov: arr2(&[[4.0, 2.0], [2.0, 3.0]]) }
}

/// MH sampler; `seed = None` => default (unseeded) construction.
pub fn mh_build(n_chains: usize, seed: Option<u64>, common_start: bool) -> MH64 {
    let inits = if common_start { vec![vec![0.25, -0.5]; n_chains] } else { init_det(n_chains, 2) };
    match seed {
        Some(s) => MetropolisHastings::new(mh_target(), IsotropicGaussian::new(1.0).set_seed(s), inits).seed(s),
        None => MetropolisHastings::new(mh_target(), IsotropicGaussian::new(1.0), inits),
    }
}

pub fn arr3_bits<T: Copy + Into<f64>>(a: &Array3<T>) -> Vec<u64> {
    a.iter().map(|x| Into::<f64>::into(*x).to_bits()).collect()
}

/// A Gibbs conditional that is deterministic given its own state: x_i ~ N(0.5 * x_other, 1) drawn from its own seeded generator.
#[derive(Clone)]
pub struct DetCond {
    pub rng: SmallRng,
}
impl DetCond {
    pub fn new(seed: u64) -> Self {
        DetCond { rng: SmallRng::seed_from_u64(seed) }
    }
}
impl Conditional<f64> for DetCond {
    fn sample(&mut self, index: usize, given: &[f64]) -> f64 {
        let other: f64 = given.iter().enumerate().filter(|(k, _)| *k != index).map(|(_, v)| *v).sum::<f64>();
        let z: f64 = self.rng.sample(rand_distr::StandardNormal);
        0.5 * other / (given.len().max(2) - 1) as f64 + z
    }
}

pub fn gibbs_build(n_chains: usize, seed: Option<u64>) -> GibbsSampler<f64, DetCond> {
    let inits: Vec<Vec<f64>> = (0..n_chains).map(|c| vec![c as f64 * 0.5, -1.0, 2.0]).collect();
    let s = GibbsSampler::new(DetCond::new(99), inits);
    match seed {
        Some(x) => s.set_seed(x),
        None => s,
    }
}

/// Gaussian target of any dimension with a fixed SPD precision matrix, implemented with matmul (exercises autodiff).
#[derive(Clone, Debug)]
pub struct GaussND {
    pub prec: Vec<Vec<f64>>, // D x D
}
impl GaussND {
    pub fn new(d: usize, family: usize) -> Self {
        // A = L L^T + I with a fixed pseudo-random lower-triangular L
        let mut g = crate::refs::Lcg::new(4242 + (d * 31 + family) as u64);
        let mut l = vec![vec![0.0; d]; d];
        for i in 0..d {
            for j in 0..=i {
                l[i][j] = if i == j { 0.5 + g.unif() } else { (g.unif() - 0.5) * 0.8 };
            }
        }
        let mut p = vec![vec![0.0; d]; d];
        for i in 0..d {
            for j in 0..d {
                for k in 0..d {
                    p[i][j] += l[i][k] * l[j][k];
                }
            }
            p[i][i] += 0.25;
        }
        GaussND { prec: p }
    }
    pub fn dim(&self) -> usize {
        self.prec.len()
    }
    pub fn logp(&self, x: &[f64]) -> f64 {
        let d = self.dim();
        let mut q = 0.0;
        for i in 0..d {
            for j in 0..d {
                q += x[i] * self.prec[i][j] * x[j];
            }
        }
        -0.5 * q
    }
    pub fn grad(&self, x: &[f64]) -> Vec<f64> {
        let d = self.dim();
        (0..d).map(|i| -(0..d).map(|j| self.prec[i][j] * x[j]).sum::<f64>()).collect()
    }
}
impl<T: Float, B: AutodiffBackend> GradientTarget<T, B> for GaussND {
    fn unnorm_logp(&self, position: Tensor<B, 1>) -> Tensor<B, 1> {
        let d = self.dim();
        let p = t2::<B>(&self.prec);
        let x = position.clone().reshape([1, d as i32]);
        let z = x.matmul(p).reshape([d as i32]);
        (z * position).sum().mul_scalar(-0.5)
    }
}
impl<T: Float, B: AutodiffBackend> BatchedGradientTarget<T, B> for GaussND {
    fn unnorm_logp_batch(&self, positions: Tensor<B, 2>) -> Tensor<B, 1> {
        let p = t2::<B>(&self.prec);
        let z = positions.clone().matmul(p);
        (z * positions).sum_dim(1).squeeze::<1>(1).mul_scalar(-0.5)
    }
}

pub fn hmc_build<T, B>(n_chains: usize, seed: Option<u64>, common_start: bool) -> HMC<T, B, Rosenbrock2D<T>>
where
    T: Float + burn::tensor::ElementConversion + burn::tensor::Element + rand_distr::uniform::SampleUniform + num_traits::FromPrimitive,
    B: AutodiffBackend,
    rand_distr::StandardNormal: rand::distr::Distribution<T>,
    rand_distr::StandardUniform: rand_distr::Distribution<T>,
{
    let f = |x: f64| T::from(x).unwrap();
    let inits: Vec<Vec<T>> = (0..n_chains).map(|c| if common_start { vec![f(0.5), f(0.5)] } else { vec![f(0.5 + 0.1 * c as f64), f(0.5 - 0.05 * c as f64)] }).collect();
    let s = HMC::<T, B, Rosenbrock2D<T>>::new(Rosenbrock2D { a: f(1.0), b: f(10.0) }, inits, f(0.05), 3);
    match seed {
        Some(x) => s.set_seed(x),
        None => s,
    }
}

pub fn hmc_gauss_build<T, B>(n_chains: usize, seed: Option<u64>) -> HMC<T, B, DiffableGaussian2D<T>>
where
    T: Float + burn::tensor::ElementConversion + burn::tensor::Element + rand_distr::uniform::SampleUniform + num_traits::FromPrimitive + std::fmt::Debug + num_traits::FloatConst,
    B: AutodiffBackend,
    rand_distr::StandardNormal: rand::distr::Distribution<T>,
    rand_distr::StandardUniform: rand_distr::Distribution<T>,
{
    let f = |x: f64| T::from(x).unwrap();
    let inits: Vec<Vec<T>> = (0..n_chains).map(|c| vec![f(0.1 * c as f64), f(1.0 - 0.2 * c as f64)]).collect();
    let s = HMC::<T, B, DiffableGaussian2D<T>>::new(DiffableGaussian2D::new([f(0.0), f(1.0)], [[f(4.0), f(2.0)], [f(2.0), f(3.0)]]), inits, f(0.2), 4);
    match seed {
        Some(x) => s.set_seed(x),
        None => s,
    }
}

pub fn nuts_build<T, B>(n_chains: usize, seed: Option<u64>, common_start: bool) -> NUTS<T, B, DiffableGaussian2D<T>>
where
    T: Float + burn::tensor::ElementConversion + burn::tensor::Element + rand_distr::uniform::SampleUniform + num_traits::FromPrimitive + std::fmt::Debug + num_traits::FloatConst + Send,
    B: AutodiffBackend + Send,
    rand_distr::StandardNormal: rand::distr::Distribution<T>,
    rand_distr::StandardUniform: rand_distr::Distribution<T>,
    rand_distr::Exp1: rand_distr::Distribution<T>,
{
    let f = |x: f64| T::from(x).unwrap();
    let inits: Vec<Vec<T>> = (0..n_chains).map(|c| if common_start { vec![f(0.3), f(0.7)] } else { vec![f(0.3 + 0.2 * c as f64), f(0.7 - 0.1 * c as f64)] }).collect();
    let s = NUTS::new(DiffableGaussian2D::new([f(0.0), f(1.0)], [[f(4.0), f(2.0)], [f(2.0), f(3.0)]]), inits, f(0.8));
    match seed {
        Some(x) => s.set_seed(x),
        None => s,
    }
}

/// run() of an MH sampler as bit patterns
pub fn mh_run_bits(s: &mut MH64, n_collect: usize, n_discard: usize) -> Result<Vec<u64>, String> {
    s.run(n_collect, n_discard).map(|a| arr3_bits(&a)).map_err(|e| e.to_string())
}

pub fn tensor_bits<B: Backend, const D: usize>(t: &Tensor<B, D>) -> Vec<u64> {
    v(t).iter().map(|x| x.to_bits()).collect()
}

/// A proposal that keeps the generator it was seeded with visible (for C08: never seeded identically to the acceptance generator).
#[derive(Clone, Debug, PartialEq)]
pub struct SeedableProp {
    pub rng: SmallRng,
    pub seeded_with: Option<u64>,
}
impl Proposal<f64, f64> for SeedableProp {
    fn sample(&mut self, current: &[f64]) -> Vec<f64> {
        current.iter().map(|x| x + self.rng.random::<f64>() - 0.5).collect()
    }
    fn logp(&self, _from: &[f64], _to: &[f64]) -> f64 {
        0.0
    }
    fn set_seed(mut self, seed: u64) -> Self {
        self.rng = SmallRng::seed_from_u64(seed);
        self.seeded_with = Some(seed);
        self
    }
}
