//! NUTS harness: targets behind one type, event-stream recording of a real transition through the verif
//! taps, choice injection, and the Algorithm-6 reference that replays the recorded stream.
#![allow(dead_code)]
use super::c02::RefT;
use crate::burnutil::*;
use crate::common::*;
use crate::e2::Dec;
use crate::zoo::GaussND;
use burn::prelude::*;
use burn::tensor::backend::AutodiffBackend;
use mini_mcmc::distributions::{DiffableGaussian2D, GradientTarget, Rosenbrock2D};
use mini_mcmc::nuts::NUTSChain;
use mini_mcmc::verif;
use num_traits::Float;
use std::cell::RefCell;
use std::rc::Rc;
use std::sync::Arc;

#[derive(Clone, Debug)]
pub enum AnyGT<T: Float> {
    Gauss2D(DiffableGaussian2D<T>),
    Rosen2D(Rosenbrock2D<T>),
    GaussND(GaussND),
    Funnel,
    Quartic,
    LogX,
    SqrtDom,
    Box1,
    /// standard normal (any dimension) whose log-density is NaN in the pocket 1.45 < x_k < 1.55
    NanPocket,
}

thread_local! {
    /// Remaining log-density evaluations the harness targets grant the CURRENT thread (-1 = unlimited). A loop in the
    /// library that never ends (e.g. in the step-size search, which has no hook of its own) keeps evaluating the target;
    /// when the budget is used up the target panics with "runaway evaluations" and the harness turns that into a verdict.
    static EVAL_BUDGET: std::cell::Cell<i64> = const { std::cell::Cell::new(-1) };
}
pub fn with_eval_budget<R>(n: i64, f: impl FnOnce() -> R) -> R {
    struct Reset;
    impl Drop for Reset {
        fn drop(&mut self) {
            EVAL_BUDGET.with(|b| b.set(-1));
        }
    }
    let _g = Reset;
    EVAL_BUDGET.with(|b| b.set(n));
    f()
}
fn spend_eval() {
    EVAL_BUDGET.with(|b| {
        let v = b.get();
        if v > 0 {
            b.set(v - 1);
        } else if v == 0 {
            b.set(-1);
            panic!("runaway evaluations: the target was evaluated more often than the budget allows");
        }
    });
}

impl<T, B> GradientTarget<T, B> for AnyGT<T>
where
    T: Float + burn::tensor::ElementConversion + std::fmt::Debug + burn::tensor::Element,
    B: AutodiffBackend,
{
    fn unnorm_logp(&self, p: Tensor<B, 1>) -> Tensor<B, 1> {
        spend_eval();
        match self {
            AnyGT::Gauss2D(g) => <DiffableGaussian2D<T> as GradientTarget<T, B>>::unnorm_logp(g, p),
            AnyGT::Rosen2D(r) => <Rosenbrock2D<T> as GradientTarget<T, B>>::unnorm_logp(r, p),
            AnyGT::GaussND(g) => <GaussND as GradientTarget<T, B>>::unnorm_logp(g, p),
            AnyGT::Funnel => {
                let v = p.clone().slice(s![0..1]);
                let x = p.slice(s![1..2]);
                v.clone().powi_scalar(2).mul_scalar(-1.0 / 18.0) - x.powi_scalar(2).mul_scalar(0.5) * v.clone().neg().exp() - v.mul_scalar(0.5)
            }
            AnyGT::Quartic => p.powi_scalar(4).sum().mul_scalar(-0.25),
            AnyGT::LogX => (p.clone().log() - p).sum(),
            AnyGT::SqrtDom => (p.clone().powi_scalar(2).mul_scalar(-0.5) + p.sqrt().log()).sum(),
            AnyGT::Box1 => {
                let inside = p.clone().abs().floor().clamp(0.0, 1.0).neg().add_scalar(1.0);
                (p.powi_scalar(2).mul_scalar(-0.5) + inside.log()).sum()
            }
            AnyGT::NanPocket => {
                // sqrt of a negative number inside the pocket, times zero: NaN inside, 0 outside
                let pocket = p.clone().sub_scalar(1.5).abs().sub_scalar(0.05).sqrt().mul_scalar(0.0);
                (p.powi_scalar(2).mul_scalar(-0.5) + pocket).sum()
            }
        }
    }
}

pub fn gt_ref<T: Float>(t: &AnyGT<T>) -> RefT {
    use super::c02::{ref_of, AnyTarget};
    match t {
        AnyGT::Gauss2D(g) => {
            // single-point version: -quad/2 + norm_const with f32-rounded parameters (from_floats)
            ref_of(&AnyTarget::Gauss2D(g.clone()))
        }
        AnyGT::Rosen2D(r) => ref_of(&AnyTarget::Rosen2D(*r)),
        AnyGT::GaussND(g) => ref_of::<T>(&AnyTarget::GaussND(g.clone())),
        AnyGT::Funnel => RefT {
            kind: "Funnel".into(),
            f: Arc::new(|x| -x[0] * x[0] / 18.0 - 0.5 * x[1] * x[1] * (-x[0]).exp() - 0.5 * x[0]),
            g: Arc::new(|x| vec![-x[0] / 9.0 + 0.5 * x[1] * x[1] * (-x[0]).exp() - 0.5, -x[1] * (-x[0]).exp()]),
        },
        AnyGT::Quartic => ref_of::<T>(&AnyTarget::Quartic),
        AnyGT::LogX => ref_of::<T>(&AnyTarget::LogX),
        AnyGT::SqrtDom => ref_of::<T>(&AnyTarget::SqrtDom),
        AnyGT::Box1 => ref_of::<T>(&AnyTarget::Box1),
        AnyGT::NanPocket => RefT {
            kind: "NanPocket".into(),
            f: Arc::new(|x| x.iter().map(|v| if (v - 1.5).abs() < 0.05 { f64::NAN } else { -0.5 * v * v }).sum()),
            g: Arc::new(|x| x.iter().map(|v| -v).collect()),
        },
    }
}

pub type Event = (String, Vec<f64>);

/// How the draws of a transition are chosen: `prefix[k]` is the alphabet index taken at the k-th choice
/// point (0 = default). Alphabets (default first):
///   momentum : the supplied list of vectors
///   exp1     : {1, 1e-12, 0.1, 5, 50, 3e3, 1e6}
///   dir_u    : {0.25, 0.75}
///   merge_u  : {0.5, 0, just below n''/(n'+n''), exactly n''/(n'+n''), 1-2^-53}
///   accept_u : {0.5, 0, just below min(1,n'/n), exactly that, 1-ulp}   (in the chain's float type)
pub struct Script {
    pub prefix: Vec<u32>,
    pub momenta: Vec<Vec<f64>>,
    pub f32_scalar: bool,
    /// when false, nothing is injected (the chain's own generator decides) — used for replay/record-only runs
    pub inject: bool,
    /// record only these labels (None = everything)
    pub keep: Option<&'static [&'static str]>,
    /// abort the run (panic inside the hook, caught by the caller) when one transition builds more leaves than this
    pub max_leaves: usize,
    /// force the momentum used by the initial step-size search (`nuts.init_momentum`), also when `inject` is false
    pub init_momentum: Option<Vec<f64>>,
}

pub struct Recorded {
    pub events: Vec<Event>,
    pub decisions: Vec<Dec>,
}

fn valid_u(x: f64, f32s: bool) -> f64 {
    let top = if f32s { 1.0 - 2f64.powi(-24) } else { 1.0 - 2f64.powi(-53) };
    if !(x >= 0.0) {
        0.0
    } else if x >= 1.0 {
        top
    } else {
        x
    }
}

/// Run `f` (one or more real NUTS transitions on this thread) with the script installed; returns the event stream.
pub fn record_with<R>(script: Script, f: impl FnOnce() -> R) -> (Result<R, String>, Recorded) {
    let state = Rc::new(RefCell::new((Vec::<Event>::new(), Vec::<Dec>::new(), 0usize, (0.0f64, 0.0f64), 0.0f64, 0usize)));
    let st2 = state.clone();
    let old = verif::set_tap(Some(Box::new(move |label, vals| {
        let mut g = st2.borrow_mut();
        let mut choose = |g: &mut (Vec<Event>, Vec<Dec>, usize, (f64, f64), f64, usize), n: u32, kind: &str| -> u32 {
            let k = g.2;
            g.2 += 1;
            let c = script.prefix.get(k).copied().unwrap_or(0).min(n - 1);
            g.1.push(Dec { n, chosen: c, kind: kind.to_string() });
            c
        };
        if label == "nuts.init_momentum" {
            if let Some(m) = &script.init_momentum {
                if m.len() == vals.len() {
                    vals.copy_from_slice(m);
                }
            }
        }
        if script.inject {
            match label {
                "nuts.momentum" => {
                    let c = choose(&mut g, script.momenta.len() as u32, "momentum");
                    let m = &script.momenta[c as usize];
                    if m.len() == vals.len() {
                        vals.copy_from_slice(m);
                    }
                }
                "nuts.exp1" => {
                    // 3e3 and 1e6 put the slice level far below the start energy: leaves whose energy error lies in
                    // [1000, 1000 + e) are NOT divergent under Algorithm 6 (the test is against the slice level log u,
                    // not against the initial energy)
                    let c = choose(&mut g, 7, "exp1");
                    vals[0] = [1.0, 1e-12, 0.1, 5.0, 50.0, 3e3, 1e6][c as usize];
                }
                "nuts.dir_u" => {
                    let c = choose(&mut g, 2, "dir");
                    vals[0] = [0.25, 0.75][c as usize];
                }
                "nuts.merge" => {
                    g.3 = (vals[1], vals[2]);
                }
                "nuts.merge_u" => {
                    let (a, b) = g.3;
                    let thr = b / (a + b).max(1.0);
                    let c = choose(&mut g, 5, "merge");
                    vals[0] = valid_u([0.5, 0.0, f64_down(thr), thr, 1.0][c as usize], false);
                }
                "nuts.pre_accept" => {
                    g.4 = vals[3];
                }
                "nuts.accept_u" => {
                    let thr = g.4;
                    let below = if script.f32_scalar { f32_down(thr as f32) as f64 } else { f64_down(thr) };
                    let c = choose(&mut g, 5, "accept");
                    vals[0] = valid_u([0.5, 0.0, below, thr, 1.0][c as usize], script.f32_scalar);
                }
                _ => {}
            }
        }
        if label == "nuts.leaf" {
            g.5 += 1;
            if g.5 > script.max_leaves {
                drop(g);
                panic!("harness: runaway tree (more than {} leaves in one transition)", script.max_leaves);
            }
        } else if label == "nuts.end" {
            g.5 = 0;
        }
        if script.keep.map(|k| k.contains(&label)).unwrap_or(true) {
            g.0.push((label.to_string(), vals.to_vec()));
        }
    })));
    let r = catch(f);
    verif::set_tap(old);
    let g = state.borrow();
    (r, Recorded { events: g.0.clone(), decisions: g.1.clone() })
}

// ------------------------------------------------------------------ Algorithm 6 over the recorded stream

#[derive(Clone, Debug)]
struct EndState {
    pos: Vec<f64>,
    mom: Vec<f64>,
}

#[derive(Clone, Debug)]
struct Sub {
    minus: EndState,
    plus: EndState,
    cand: Vec<f64>,
    n: u64,
    s: bool,
    alpha: f64,
    nalpha: u64,
}

#[derive(Debug, Default, Clone)]
pub struct TransitionInfo {
    pub depth: usize,
    pub n_leaves: usize,
    pub moved: bool,
    pub divergent: bool,
    pub early_stop_subtree: bool,
    pub nan_joint: bool,
    pub alpha_mean: f64,
    pub eps_used: f64,
    pub ambiguous: bool,
    pub start: Vec<f64>,
    pub end: Vec<f64>,
    pub end_logp_ref: f64,
}

pub struct Verifier<'a> {
    pub rt: &'a RefT,
    pub f32_scalar: bool,
    pub f32_backend: bool,
    ev: &'a [Event],
    cur: usize,
    logu: f64,
    joint0: f64,
    eps: f64,
    info: TransitionInfo,
}

pub struct Fail {
    pub key: &'static str,
    pub what: String,
}
fn fail<T>(key: &'static str, what: String) -> Result<T, Fail> {
    Err(Fail { key, what })
}

impl<'a> Verifier<'a> {
    pub fn new(rt: &'a RefT, f32_scalar: bool, f32_backend: bool, ev: &'a [Event], start_at: usize) -> Self {
        Verifier { rt, f32_scalar, f32_backend, ev, cur: start_at, logu: 0.0, joint0: 0.0, eps: 0.0, info: TransitionInfo::default() }
    }
    pub fn cursor(&self) -> usize {
        self.cur
    }
    fn peek(&self) -> Option<&'a str> {
        self.ev.get(self.cur).map(|e| e.0.as_str())
    }
    fn next(&mut self, label: &'static str) -> Result<&'a [f64], Fail> {
        match self.ev.get(self.cur) {
            Some((l, v)) if l == label => {
                self.cur += 1;
                Ok(v)
            }
            Some((l, _)) => fail("C03:structure", format!("Algorithm 6 expects event '{label}' at position {} of the transition's trace, the implementation produced '{l}'", self.cur)),
            None => fail("C03:structure", format!("Algorithm 6 expects event '{label}', the implementation's trace ended")),
        }
    }
    fn num_tol(&self) -> f64 {
        if self.f32_backend { 3e-4 } else { 1e-9 }
    }
    fn sub_t(&self, a: f64, b: f64) -> f64 {
        if self.f32_scalar { ((a as f32) - (b as f32)) as f64 } else { a - b }
    }

    fn uturn(&mut self, minus: &EndState, plus: &EndState) -> bool {
        let d = minus.pos.len();
        let mut ok = true;
        for mom in [&minus.mom, &plus.mom] {
            let mut dot = 0.0;
            let mut mag = 0.0;
            for k in 0..d {
                let t = (plus.pos[k] - minus.pos[k]) * mom[k];
                dot += t;
                mag += t.abs();
            }
            let margin = if self.f32_backend { 2e-5 } else { 1e-11 } * mag.max(1e-300);
            if dot.abs() <= margin && mag > 0.0 {
                self.info.ambiguous = true;
            }
            if dot.is_nan() {
                // NaN >= 0 is false
                ok = false;
            } else if dot < 0.0 {
                ok = false;
            }
        }
        ok
    }

    fn leaf(&mut self, from: &EndState, v: f64) -> Result<Sub, Fail> {
        let d = from.pos.len();
        let e = self.next("nuts.leaf")?;
        if e.len() != 6 + 3 * d {
            return fail("C03:structure", format!("leaf record has {} values for dimension {d}", e.len()));
        }
        let (lv, leps, joint, n, s) = (e[0], e[1], e[2], e[3], e[4]);
        let pos = e[6..6 + d].to_vec();
        let mom = e[6 + d..6 + 2 * d].to_vec();
        self.info.n_leaves += 1;
        if lv != v {
            return fail("C03:direction", format!("leaf built in direction {lv}, the doubling's direction is {v}"));
        }
        if leps.to_bits() != self.eps.to_bits() {
            return fail("C03:step-size", format!("leaf uses step size {leps}, the transition's step size is {}", self.eps));
        }
        // slice / divergence flags on the implementation's own joint (exact, in the chain's float type)
        let want_n = self.logu < joint;
        let want_s = self.sub_t(self.logu, 1000.0) < joint;
        if (n != 0.0) != want_n {
            return fail("C03:slice-test", format!("leaf with joint {joint} and slice level {}: n' = {n}, Algorithm 6 gives {}", self.logu, want_n as u8));
        }
        if (s != 0.0) != want_s {
            return fail("C03:divergence-test", format!("leaf with joint {joint} and slice level {}: s' = {s}, Algorithm 6 (energy error above 1000) gives {}", self.logu, want_s as u8));
        }
        if !want_s {
            self.info.divergent = true;
        }
        if joint.is_nan() {
            self.info.nan_joint = true;
        }
        // numerics: one leapfrog step of size v*eps from the end state, f64 reference
        let se = v * self.eps;
        let g0 = (self.rt.g)(&from.pos);
        let ph: Vec<f64> = (0..d).map(|k| from.mom[k] + 0.5 * se * g0[k]).collect();
        let xr: Vec<f64> = (0..d).map(|k| from.pos[k] + se * ph[k]).collect();
        let g1 = (self.rt.g)(&xr);
        let pr: Vec<f64> = (0..d).map(|k| ph[k] + 0.5 * se * g1[k]).collect();
        let jr = (self.rt.f)(&xr) - 0.5 * pr.iter().map(|x| x * x).sum::<f64>();
        let scale = (0..d).fold(1.0f64, |a, k| a.max(xr[k].abs()).max(pr[k].abs()).max((se * g0[k]).abs()).max((se * g1[k]).abs()).max(from.pos[k].abs()).max(from.mom[k].abs()));
        if scale.is_finite() && scale < 1e7 && jr.is_finite() {
            let t = self.num_tol() * scale * (1.0 + scale * se.abs());
            for k in 0..d {
                if !((pos[k] - xr[k]).abs() <= t) || !((mom[k] - pr[k]).abs() <= t * (1.0 + scale)) {
                    return fail(
                        "C03:leapfrog",
                        format!("trajectory point is not one leapfrog step of size {se} from the trajectory's end (x={:?}, r={:?}): got x'={pos:?}, r'={mom:?}; reference x'={xr:?}, r'={pr:?}", from.pos, from.mom),
                    );
                }
            }
            let jt = self.num_tol() * (jr.abs() + scale * scale + 1.0) * 4.0;
            if !((joint - jr).abs() <= jt) {
                return fail("C03:joint", format!("joint log-density of a trajectory point: implementation {joint}, log p(x') - |r'|^2/2 = {jr}"));
            }
        }
        let a = (joint - self.joint0).exp().min(1.0);
        let a = if (joint - self.joint0).is_nan() { f64::NAN } else { a };
        let es = EndState { pos: pos.clone(), mom };
        Ok(Sub { minus: es.clone(), plus: es, cand: pos, n: want_n as u64, s: want_s, alpha: a, nalpha: 1 })
    }

    fn build(&mut self, from: &EndState, v: f64, j: usize) -> Result<Sub, Fail> {
        if j == 0 {
            return self.leaf(from, v);
        }
        let mut a = self.build(from, v, j - 1)?;
        if !a.s {
            self.info.early_stop_subtree = true;
            return Ok(a);
        }
        let outer = if v < 0.0 { a.minus.clone() } else { a.plus.clone() };
        let b = self.build(&outer, v, j - 1)?;
        let m = self.next("nuts.merge")?;
        if m[0] as usize != j || m[1] as u64 != a.n || m[2] as u64 != b.n || (m[3] != 0.0) != b.s {
            return fail("C03:subtree-bookkeeping", format!("at a depth-{j} merge the implementation holds (n'={}, n''={}, s''={}) but the trajectory gives (n'={}, n''={}, s''={})", m[1], m[2], m[3], a.n, b.n, b.s as u8));
        }
        let u = self.next("nuts.merge_u")?[0];
        if v < 0.0 {
            a.minus = b.minus.clone();
        } else {
            a.plus = b.plus.clone();
        }
        let thr = b.n as f64 / ((a.n + b.n).max(1)) as f64;
        if u < thr {
            a.cand = b.cand.clone();
        }
        a.n += b.n;
        let (mi, pl) = (a.minus.clone(), a.plus.clone());
        let ut = self.uturn(&mi, &pl);
        a.s = a.s && b.s && ut;
        a.alpha = if self.f32_scalar { ((a.alpha as f32) + (b.alpha as f32)) as f64 } else { a.alpha + b.alpha };
        a.nalpha += b.nalpha;
        Ok(a)
    }

    /// Verify one transition starting at the cursor; on success the cursor is just after "nuts.end".
    pub fn transition(&mut self) -> Result<TransitionInfo, Fail> {
        self.info = TransitionInfo::default();
        let r0 = self.next("nuts.momentum")?.to_vec();
        let d = r0.len();
        let e = self.next("nuts.exp1")?[0];
        let st = self.next("nuts.start")?;
        if st.len() != 4 + 2 * d {
            return fail("C03:structure", format!("start record has {} values for dimension {d}", st.len()));
        }
        let (joint0, logu, eps, ulogp) = (st[0], st[1], st[2], st[3]);
        let pos0 = st[4..4 + d].to_vec();
        self.joint0 = joint0;
        self.logu = logu;
        self.eps = eps;
        self.info.eps_used = eps;
        self.info.start = pos0.clone();
        if !(e >= 0.0) {
            return fail("C03:slice-level", format!("slice variate {e} is negative"));
        }
        let want_logu = self.sub_t(joint0, e);
        if want_logu.to_bits() != logu.to_bits() && !(want_logu.is_nan() && logu.is_nan()) {
            return fail("C03:slice-level", format!("slice level {logu} is not joint(theta, r0) - e = {joint0} - {e}"));
        }
        let lp = (self.rt.f)(&pos0);
        let jr = lp - 0.5 * r0.iter().map(|x| x * x).sum::<f64>();
        if jr.is_finite() {
            let sc = lp.abs() + r0.iter().map(|x| x * x).sum::<f64>() + 1.0;
            if !((joint0 - jr).abs() <= self.num_tol() * sc * 4.0) || !((ulogp - lp).abs() <= self.num_tol() * sc * 4.0) {
                return fail("C03:joint", format!("joint log-density at the start: implementation {joint0} (log p {ulogp}), reference {jr} (log p {lp})"));
            }
        }
        let mut minus = EndState { pos: pos0.clone(), mom: r0.clone() };
        let mut plus = minus.clone();
        let mut current = pos0.clone();
        let mut n: u64 = 1;
        let mut j = 0usize;
        let mut last_alpha = (0.0f64, 0u64);
        loop {
            self.next("nuts.dir_u")?;
            let dv = self.next("nuts.dir")?;
            let v = dv[0];
            if (v != 1.0 && v != -1.0) || dv[1] as usize != j {
                return fail("C03:direction", format!("doubling {j}: direction record {dv:?}"));
            }
            let from = if v < 0.0 { minus.clone() } else { plus.clone() };
            let sub = self.build(&from, v, j)?;
            if v < 0.0 {
                minus = sub.minus.clone();
            } else {
                plus = sub.plus.clone();
            }
            let pa = self.next("nuts.pre_accept")?;
            let tmp_want = {
                let r = if self.f32_scalar { ((sub.n as f32) / (n as f32)) as f64 } else { sub.n as f64 / n as f64 };
                r.min(1.0)
            };
            if pa[0] as u64 != sub.n || pa[1] as u64 != n || (pa[2] != 0.0) != sub.s {
                if self.info.ambiguous {
                    return Ok(self.info.clone());
                }
                return fail("C03:subtree-bookkeeping", format!("doubling {j}: implementation reports (n'={}, n={}, s'={}), the trajectory gives (n'={}, n={n}, s'={})", pa[0], pa[1], pa[2], sub.n, sub.s as u8));
            }
            if pa[3].to_bits() != tmp_want.to_bits() {
                return fail("C03:accept-probability", format!("doubling {j}: acceptance probability {} instead of min(1, n'/n) = {tmp_want}", pa[3]));
            }
            let u = self.next("nuts.accept_u")?[0];
            let dr = self.next("nuts.doubling")?;
            let cand_impl = &dr[7..7 + d];
            if sub.n > 0 && cand_impl.iter().map(|x| x.to_bits()).ne(sub.cand.iter().map(|x| x.to_bits())) {
                return fail("C03:candidate-selection", format!("doubling {j}: the subtree's candidate {cand_impl:?} is not the point Algorithm 6 selects with the uniforms drawn ({:?})", sub.cand));
            }
            if sub.s && u < tmp_want {
                current = sub.cand.clone();
                self.info.moved = true;
            }
            n += sub.n;
            last_alpha = (sub.alpha, sub.nalpha);
            let (mi, pl) = (minus.clone(), plus.clone());
            let ut = self.uturn(&mi, &pl);
            let s = sub.s && ut;
            j += 1;
            let cont = self.peek() == Some("nuts.dir_u");
            if self.info.ambiguous {
                // a U-turn product inside the rounding margin: follow the implementation, do not judge this transition
                if !cont {
                    break;
                }
                continue;
            }
            if s != cont {
                return fail(
                    "C03:termination",
                    format!("after doubling {} (s'={}, U-turn test {}) Algorithm 6 {} but the implementation {}", j - 1, sub.s as u8, if ut { "passes" } else { "fails" }, if s { "continues doubling" } else { "stops" }, if cont { "continues" } else { "stops" }),
                );
            }
            if !s {
                break;
            }
            if j > 40 {
                return fail("C03:termination", "more than 40 doublings".to_string());
            }
        }
        let en = self.next("nuts.end")?;
        self.info.depth = j;
        self.info.end = en[5..5 + d].to_vec();
        self.info.end_logp_ref = (self.rt.f)(&self.info.end);
        if self.info.ambiguous {
            return Ok(self.info.clone());
        }
        if en[3] as usize != j || en[4] as u64 != n {
            return fail("C03:subtree-bookkeeping", format!("transition ends with (depth {}, n {}) but the trajectory gives (depth {j}, n {n})", en[3], en[4]));
        }
        if en[5..5 + d].iter().map(|x| x.to_bits()).ne(current.iter().map(|x| x.to_bits())) {
            return fail("C03:next-state", format!("next state {:?} is not the state Algorithm 6 selects ({current:?}) for the draws of this transition", &en[5..5 + d]));
        }
        // acceptance statistic: mean of min(1, exp(energy change)) over the LAST doubling
        if en[1] as u64 != last_alpha.1 {
            return fail("C03:acceptance-statistic", format!("n_alpha = {} but the last doubling has {} leaves", en[1], last_alpha.1));
        }
        if !self.info.nan_joint {
            let tol = if self.f32_scalar { 1e-5 } else { 1e-12 } * last_alpha.1 as f64;
            if !((en[0] - last_alpha.0).abs() <= tol * last_alpha.0.abs().max(1.0)) {
                return fail("C03:acceptance-statistic", format!("alpha = {} but the sum of min(1, exp(joint - joint0)) over the last doubling is {}", en[0], last_alpha.0));
            }
        }
        self.info.alpha_mean = en[0] / en[1];
        Ok(self.info.clone())
    }
}

/// Build a single chain with a fixed step size (adaptation state reset so that `step()` uses exactly `eps`).
pub fn chain_with_eps<T, B>(target: AnyGT<T>, start: &[f64], eps: f64) -> NUTSChain<T, B, AnyGT<T>>
where
    T: Float + burn::tensor::ElementConversion + burn::tensor::Element + rand_distr::uniform::SampleUniform + num_traits::FromPrimitive + std::fmt::Debug,
    B: AutodiffBackend,
    rand_distr::StandardNormal: rand::distr::Distribution<T>,
    rand_distr::StandardUniform: rand_distr::Distribution<T>,
    rand_distr::Exp1: rand_distr::Distribution<T>,
{
    let f = |x: f64| T::from(x).unwrap();
    let mut c = NUTSChain::<T, B, AnyGT<T>>::new(target, start.iter().map(|x| f(*x)).collect(), f(0.8)).set_seed(1);
    c.verif_set_adapt_state(Some(0), Some(f(eps)), Some(f(eps)), Some(f(0.0)), None, Some(0));
    c
}
