//! C18 — initial-position helpers: shape, finiteness, purity, init_det == seed 42, prefix property.
use crate::common::*;
use mini_mcmc::core::{init, init_det, init_with_seed};
use num_traits::{Float, FromPrimitive};
use rayon::prelude::*;
use serde_json::{json, Value};

const SEEDS: [u64; 5] = [0, 1, 42, 1 << 32, u64::MAX];

fn bits<T: Float>(v: &[Vec<T>]) -> Vec<Vec<u64>> {
    v.iter().map(|r| r.iter().map(|x| x.to_f64().unwrap().to_bits()).collect()).collect()
}

fn shape_ok<T: Float>(v: &[Vec<T>], n: usize, d: usize) -> bool {
    v.len() == n && v.iter().all(|r| r.len() == d)
}

fn check_typed<T: Float + FromPrimitive + Send + Sync + std::fmt::Debug>(
    ctx: &Ctx,
    ty: &str,
    n: usize,
    d: usize,
    seed: u64,
    big: Option<&Vec<Vec<T>>>, // init_with_seed(NMAX, d, seed) for the prefix property
) {
    let case = json!({"ty": ty, "n": n, "d": d, "seed": seed.to_string()});
    let mk = |key: &str, what: String| Violation::new(key, what, case.clone());
    let a = match catch(|| init_with_seed::<T>(n, d, seed)) {
        Ok(a) => a,
        Err(m) => {
            ctx.violation(mk("C18:panic", format!("init_with_seed({n},{d},{seed}) panicked: {m}")));
            return;
        }
    };
    ctx.evals(1);
    ctx.transitions(1);
    ctx.state(hash_str(&case.to_string()));
    if !shape_ok(&a, n, d) {
        ctx.violation(mk(
            "C18:shape",
            format!("init_with_seed({n},{d},{seed}) returned {} rows (lengths {:?}…)", a.len(), a.first().map(|r| r.len())),
        ));
        return;
    }
    if a.iter().flatten().any(|x| !x.is_finite()) {
        ctx.violation(mk("C18:nonfinite", format!("init_with_seed({n},{d},{seed}) has a non-finite entry")));
    }
    let b = init_with_seed::<T>(n, d, seed);
    ctx.transitions(1);
    if bits(&a) != bits(&b) {
        ctx.violation(mk("C18:impure", format!("two calls init_with_seed({n},{d},{seed}) differ")));
    }
    if seed == 42 {
        let c = init_det::<T>(n, d);
        ctx.transitions(1);
        if !shape_ok(&c, n, d) || bits(&a) != bits(&c) {
            ctx.violation(mk("C18:init_det", format!("init_det({n},{d}) != init_with_seed({n},{d},42)")));
        }
        let c2 = init_det::<T>(n, d);
        if bits(&c) != bits(&c2) {
            ctx.violation(mk("C18:impure", format!("two calls init_det({n},{d}) differ")));
        }
    }
    if let Some(big) = big {
        if big.len() >= n && bits(&big[..n]) != bits(&a) {
            ctx.violation(mk(
                "C18:prefix",
                format!("init_with_seed({n},{d},{seed}) is not the first {n} rows of init_with_seed({},{d},{seed})", big.len()),
            ));
        }
    }
    if n * d >= 2 {
        // different seeds differ; rows pairwise distinct for d >= 2 (independence smoke test)
        let other = init_with_seed::<T>(n, d, seed.wrapping_add(1));
        ctx.transitions(1);
        if bits(&other) == bits(&a) {
            ctx.violation(mk("C18:seed-ignored", format!("seeds {seed} and {} give identical output for n={n} d={d}", seed.wrapping_add(1))));
        }
        if d >= 2 && n >= 2 {
            let bb = bits(&a);
            let mut set = std::collections::HashSet::new();
            if !bb.iter().all(|r| set.insert(r.clone())) {
                ctx.violation(mk("C18:duplicate-rows", format!("init_with_seed({n},{d},{seed}) contains two identical rows")));
            }
        }
        ctx.distinct(hash_of(&bits(&a)));
    }
    if ctx.n_samples() < 4 && n == 2 && d == 3 {
        ctx.sample(json!({"call": format!("init_with_seed::<{ty}>({n},{d},{seed})"), "result": a.iter().map(|r| r.iter().map(|x| x.to_f64().unwrap()).collect::<Vec<_>>()).collect::<Vec<_>>()}));
    }
    // the unseeded helper: shape + finite, and two successive calls must not replay the same draws
    if seed == 0 && n * d >= 2 {
        if let (Ok(u1), Ok(u2)) = (catch(|| init::<T>(n, d)), catch(|| init::<T>(n, d))) {
            ctx.transitions(2);
            if shape_ok(&u1, n, d) && shape_ok(&u2, n, d) && bits(&u1) == bits(&u2) {
                ctx.violation(mk("C18:init-replays", format!("two successive calls init({n},{d}) return identical draws")));
            }
            let w = init::<f64>(n, d);
            if ty == "f32" && shape_ok(&w, n, d) && w.iter().flatten().zip(u2.iter().flatten()).all(|(a, b)| (*a as f32) as f64 == b.to_f64().unwrap()) {
                ctx.violation(mk("C18:init-replays", format!("init::<f64>({n},{d}) returns the previous init::<f32> call's draws widened")));
            }
        }
    }
    if seed == 0 {
        match catch(|| init::<T>(n, d)) {
            Ok(u) => {
                ctx.transitions(1);
                if !shape_ok(&u, n, d) {
                    ctx.violation(mk("C18:shape", format!("init({n},{d}) has the wrong shape")));
                } else if u.iter().flatten().any(|x| !x.is_finite()) {
                    ctx.violation(mk("C18:nonfinite", format!("init({n},{d}) has a non-finite entry")));
                }
            }
            Err(m) => ctx.violation(mk("C18:panic", format!("init({n},{d}) panicked: {m}"))),
        }
    }
}

fn moments_check<T: Float + FromPrimitive + Send + Sync + std::fmt::Debug>(ctx: &Ctx, ty: &str, seed: u64) {
    // Fixed, fully enumerated sanity band on the 256x256 block: mean within 5 sigma, variance within 3 %.
    // Declared non-generalising (the normal law of the generator is trusted, DESIGN §4).
    let v = init_with_seed::<T>(256, 256, seed);
    let xs: Vec<f64> = v.iter().flatten().map(|x| x.to_f64().unwrap()).collect();
    let n = xs.len() as f64;
    let mean = xs.iter().sum::<f64>() / n;
    let var = xs.iter().map(|x| (x - mean) * (x - mean)).sum::<f64>() / (n - 1.0);
    let kurt = xs.iter().map(|x| (x - mean).powi(4)).sum::<f64>() / n / (var * var);
    ctx.evals(1);
    if mean.abs() > 5.0 / n.sqrt() || (var - 1.0).abs() > 0.03 || (kurt - 3.0).abs() > 0.15 {
        ctx.violation(Violation::new(
            "C18:moments",
            format!("init_with_seed::<{ty}>(256,256,{seed}): mean {mean:.5}, var {var:.5}, kurtosis {kurt:.4} outside the standard-normal sanity band"),
            json!({"ty": ty, "n": 256, "d": 256, "seed": seed.to_string(), "moments": true}),
        ));
    }
}

/// Tail occupancy of the pooled 256x256 blocks of seeds 0..40 (2.6 million draws): the numbers of draws beyond 1, 2, 3
/// and 4 standard deviations must lie within 6 binomial standard deviations of the standard-normal expectation
/// (expected 166 draws beyond 4 sigma). Fixed enumerated blocks, declared non-generalising like the moment band; it
/// exists because truncating / redrawing rare tail values leaves every other clause intact.
fn tail_check<T: Float + FromPrimitive + Send + Sync + std::fmt::Debug>(ctx: &Ctx, ty: &str) {
    let seeds: Vec<u64> = (0..40).collect();
    let counts: Vec<[u64; 4]> = seeds
        .par_iter()
        .map(|s| {
            let v = init_with_seed::<T>(256, 256, *s);
            let mut c = [0u64; 4];
            for x in v.iter().flatten() {
                let a = x.to_f64().unwrap().abs();
                for (k, t) in [1.0, 2.0, 3.0, 4.0].iter().enumerate() {
                    if a > *t {
                        c[k] += 1;
                    }
                }
            }
            c
        })
        .collect();
    let n = (seeds.len() * 256 * 256) as f64;
    let p = [0.31731050786291415, 0.04550026389635842, 0.0026997960632601866, 6.334248366623973e-5];
    ctx.evals(1);
    ctx.transitions(seeds.len() as u64);
    for k in 0..4 {
        let got: u64 = counts.iter().map(|c| c[k]).sum();
        let (mu, sd) = (n * p[k], (n * p[k] * (1.0 - p[k])).sqrt());
        if (got as f64 - mu).abs() > 6.0 * sd {
            ctx.violation(Violation::new(
                "C18:tails",
                format!("init_with_seed::<{ty}>(256,256,s) for s in 0..40: {got} of {n} draws lie beyond {} standard deviations; a standard normal gives {mu:.1} +- {sd:.1}", k + 1),
                json!({"ty": ty, "tails": true}),
            ));
        }
    }
    ctx.outcome("tail-occupancy band checked", 1);
}

fn run_typed<T: Float + FromPrimitive + Send + Sync + std::fmt::Debug + 'static>(ctx: &Ctx, ty: &str, grid: &[usize]) {
    let nmax = *grid.iter().max().unwrap();
    let jobs: Vec<(usize, u64)> = grid.iter().flat_map(|d| SEEDS.iter().map(move |s| (*d, *s))).collect();
    jobs.par_iter().for_each(|(d, seed)| {
        let big = init_with_seed::<T>(nmax, *d, *seed);
        for n in grid {
            check_typed::<T>(ctx, ty, *n, *d, *seed, Some(&big));
        }
    });
    for s in SEEDS {
        moments_check::<T>(ctx, ty, s);
    }
    tail_check::<T>(ctx, ty);
    // unseeded init() on DIFFERENT threads: the k-th call of one thread must not equal the k-th call of another
    // (threads started one after the other, so the outcome does not depend on a schedule), in either float type
    {
        let mut outs: Vec<(usize, usize, Vec<Vec<u64>>, Vec<Vec<f64>>)> = vec![];
        for t in 0..4usize {
            let r = std::thread::spawn(move || (0..3).map(|_| init::<T>(3, 4)).collect::<Vec<_>>()).join();
            if let Ok(calls) = r {
                for (k, c) in calls.into_iter().enumerate() {
                    let f: Vec<Vec<f64>> = c.iter().map(|r| r.iter().map(|x| x.to_f64().unwrap()).collect()).collect();
                    outs.push((t, k, bits(&c), f));
                }
            }
        }
        let wide: Vec<Vec<Vec<f64>>> = std::thread::spawn(|| (0..3).map(|_| init::<f64>(3, 4)).collect::<Vec<_>>()).join().unwrap_or_default();
        ctx.evals(1);
        ctx.transitions(15);
        'o: for i in 0..outs.len() {
            for j in i + 1..outs.len() {
                if outs[i].2 == outs[j].2 {
                    ctx.violation(Violation::new("C18:init-replays(threads)", format!("init::<{ty}>(3,4): call #{} on thread {} returns the same draws as call #{} on thread {}", outs[i].1, outs[i].0, outs[j].1, outs[j].0), json!({"ty": ty, "n": 3, "d": 4, "seed": "0", "threads": true})));
                    break 'o;
                }
            }
            if ty == "f32" {
                for w in wide.iter() {
                    if w.iter().flatten().zip(outs[i].3.iter().flatten()).all(|(a, b)| (*a as f32) as f64 == *b) {
                        ctx.violation(Violation::new("C18:init-replays(threads)", "init::<f64> on another thread returns an init::<f32> call's draws widened".to_string(), json!({"ty": ty, "n": 3, "d": 4, "seed": "0", "threads": true})));
                        break 'o;
                    }
                }
            }
        }
        ctx.outcome("unseeded init across threads: distinct", 1);
    }
    // every single-bit flip of the base seeds 0 and 42: the 65 blocks per base are pairwise different
    for base in [0u64, 42] {
        let seeds: Vec<u64> = std::iter::once(base).chain((0..64).map(|b| base ^ (1u64 << b))).collect();
        let mut seen: std::collections::HashMap<Vec<Vec<u64>>, u64> = std::collections::HashMap::new();
        ctx.evals(1);
        ctx.transitions(seeds.len() as u64);
        for s in seeds {
            let blk = bits(&init_with_seed::<T>(3, 4, s));
            if let Some(o) = seen.get(&blk) {
                ctx.violation(Violation::new("C18:seed-ignored", format!("init_with_seed::<{ty}>(3,4,·): seeds {o} and {s} (single-bit flips of {base}) give identical output"), json!({"ty": ty, "n": 3, "d": 4, "seed": s.to_string()})));
            } else {
                seen.insert(blk, s);
            }
        }
    }
}

pub fn run(ctx: &Ctx) {
    let grid: Vec<usize> = if ctx.tier.thorough() { (0..=256).collect() } else { vec![0, 1, 2, 3, 7, 64, 255, 256] };
    ctx.rule("all (n,d) of the grid x seeds {0,1,42,2^32,u64::MAX} x {f32,f64}; a case is non-trivial when n*d>=2, distinct by the bit pattern of the returned block; states = distinct (type,n,d,seed) inputs, transitions = helper calls evaluated");
    ctx.extra("grid", json!(if ctx.tier.thorough() { "n,d in 0..=256 (full square)".to_string() } else { format!("{grid:?}^2") }));
    ctx.assume("that the draws are *standard normal* is trusted to rand_distr (only a fixed 5-sigma moment band on 256x256 blocks and a 6-sigma tail-occupancy band (beyond 1,2,3,4 sd) on the pooled blocks of seeds 0..40 are checked; not generalising)");
    run_typed::<f32>(ctx, "f32", &grid);
    run_typed::<f64>(ctx, "f64", &grid);
    ctx.traces(0);
}

pub fn check_case(ctx: &Ctx, case: &Value) {
    let n = case["n"].as_u64().unwrap_or(0) as usize;
    let d = case["d"].as_u64().unwrap_or(0) as usize;
    let seed: u64 = case["seed"].as_str().and_then(|s| s.parse().ok()).unwrap_or(0);
    let f32t = case["ty"].as_str() == Some("f32");
    if case.get("tails").is_some() {
        if f32t { tail_check::<f32>(ctx, "f32") } else { tail_check::<f64>(ctx, "f64") }
        return;
    }
    if case.get("moments").is_some() {
        if f32t { moments_check::<f32>(ctx, "f32", seed) } else { moments_check::<f64>(ctx, "f64", seed) }
        return;
    }
    if f32t {
        let big = init_with_seed::<f32>(256, d, seed);
        check_typed::<f32>(ctx, "f32", n, d, seed, Some(&big));
    } else {
        let big = init_with_seed::<f64>(256, d, seed);
        check_typed::<f64>(ctx, "f64", n, d, seed, Some(&big));
    }
}
