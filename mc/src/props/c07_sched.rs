//! C07(a) — E2: every chain-level interleaving (within a deviation bound) of several samplers running
//! concurrently in one process; oracle: each thread's output equals its solo output, bit for bit.
use crate::burnutil::*;
use crate::common::*;
use crate::e2::{explore, Order, Session};
use crate::zoo::*;
use burn::prelude::*;
use burn::tensor::backend::AutodiffBackend;
use mini_mcmc::core::run_chain;
use mini_mcmc::distributions::{BatchedGradientTarget, Conditional, Gaussian2D, GradientTarget, IsotropicGaussian, Proposal, Rosenbrock2D, Target};
use mini_mcmc::gibbs::GibbsMarkovChain;
use mini_mcmc::hmc::HMC;
use mini_mcmc::metropolis_hastings::MHMarkovChain;
use mini_mcmc::nuts::NUTSChain;
use rand::rngs::SmallRng;
use rand::SeedableRng;
use serde_json::{json, Value};
use std::sync::Arc;

#[derive(Clone)]
struct Pt {
    sess: Option<Arc<Session>>,
    name: String,
    rank: i64,
}
impl Pt {
    fn hit(&self, label: &str) {
        if let Some(s) = &self.sess {
            s.point(&self.name, self.rank, label);
        }
    }
}

#[derive(Clone)]
struct PtTarget {
    inner: Gaussian2D<f64>,
    pt: Pt,
}
impl Target<f64, f64> for PtTarget {
    fn unnorm_logp(&self, x: &[f64]) -> f64 {
        self.pt.hit("mh.logp");
        self.inner.unnorm_logp(x)
    }
}

#[derive(Clone)]
struct PtCond {
    inner: DetCond,
    pt: Pt,
}
impl Conditional<f64> for PtCond {
    fn sample(&mut self, i: usize, g: &[f64]) -> f64 {
        self.pt.hit("gibbs.cond");
        self.inner.sample(i, g)
    }
}

#[derive(Clone)]
struct PtBatch {
    inner: Rosenbrock2D<f64>,
    pt: Pt,
}
impl<B: AutodiffBackend> BatchedGradientTarget<f64, B> for PtBatch {
    fn unnorm_logp_batch(&self, p: Tensor<B, 2>) -> Tensor<B, 1> {
        self.pt.hit("hmc.logp");
        <Rosenbrock2D<f64> as BatchedGradientTarget<f64, B>>::unnorm_logp_batch(&self.inner, p)
    }
}

#[derive(Clone)]
struct PtGrad {
    inner: GaussND,
    pt: Pt,
}
impl<B: AutodiffBackend> GradientTarget<f64, B> for PtGrad {
    fn unnorm_logp(&self, p: Tensor<B, 1>) -> Tensor<B, 1> {
        self.pt.hit("nuts.logp");
        <GaussND as GradientTarget<f64, B>>::unnorm_logp(&self.inner, p)
    }
}

#[derive(Clone, Copy, PartialEq, Eq, Debug)]
pub enum Body {
    Mh,
    Gibbs,
    Hmc,
    Nuts,
}
impl Body {
    fn name(&self) -> &'static str {
        match self {
            Body::Mh => "MH",
            Body::Gibbs => "Gibbs",
            Body::Hmc => "HMC",
            Body::Nuts => "NUTS",
        }
    }
    fn from(s: &str) -> Option<Body> {
        [Body::Mh, Body::Gibbs, Body::Hmc, Body::Nuts].into_iter().find(|b| b.name() == s)
    }
}

static LONG: std::sync::atomic::AtomicBool = std::sync::atomic::AtomicBool::new(false);

/// Run one body (seeded by `slot`) to completion; scheduling points only when `pt.sess` is set.
fn run_body(b: Body, slot: u64, pt: Pt) -> Vec<u64> {
    let long = LONG.load(std::sync::atomic::Ordering::SeqCst);
    match b {
        Body::Mh => {
            let target = PtTarget { inner: mh_target(), pt };
            let mut chain = MHMarkovChain::<f64, f64, _, _>::new(target, IsotropicGaussian::new(1.0).set_seed(100 + slot), vec![0.5, -0.5]);
            chain.rng = SmallRng::seed_from_u64(200 + slot);
            run_chain(&mut chain, if long { 5 } else { 3 }, 0).iter().map(|x| x.to_bits()).collect()
        }
        Body::Gibbs => {
            let mut chain = GibbsMarkovChain::new(PtCond { inner: DetCond::new(300 + slot), pt }, &[0.1, 0.2]);
            run_chain(&mut chain, if long { 4 } else { 2 }, 0).iter().map(|x| x.to_bits()).collect()
        }
        Body::Hmc => {
            let mut s = HMC::<f64, BF64, _>::new(PtBatch { inner: Rosenbrock2D { a: 1.0, b: 10.0 }, pt }, vec![vec![0.5, 0.5], vec![0.2, 0.1]], 0.05, 2).set_seed(400 + slot);
            tensor_bits(&s.run(if long { 3 } else { 2 }, 0))
        }
        Body::Nuts => {
            let mut c = NUTSChain::<f64, BF64, _>::new(PtGrad { inner: GaussND::new(2, 1), pt }, vec![0.3, -0.2], 0.8).set_seed(500 + slot);
            tensor_bits(&c.run(3, 0))
        }
    }
}

struct Exec {
    outputs: Vec<Result<Vec<u64>, String>>,
    decisions: Vec<crate::e2::Dec>,
    trace: Vec<String>,
    error: Option<String>,
}

fn execute(bodies: &[Body], prefix: &[u32]) -> Exec {
    let sess = Session::new(bodies.len(), prefix.to_vec(), Order::CurrentFirst);
    let handles: Vec<_> = bodies
        .iter()
        .enumerate()
        .map(|(i, b)| {
            let s = sess.clone();
            let b = *b;
            std::thread::spawn(move || {
                let name = format!("T{i}:{}", b.name());
                let pt = Pt { sess: Some(s.clone()), name: name.clone(), rank: i as i64 };
                let r = catch(|| {
                    s.point(&name, i as i64, "start");
                    run_body(b, i as u64, pt)
                });
                s.exit(&name);
                r
            })
        })
        .collect();
    let outputs: Vec<Result<Vec<u64>, String>> = handles.into_iter().map(|h| h.join().unwrap_or_else(|_| Err("thread panicked outside catch".into()))).collect();
    let o = sess.outcome();
    Exec { outputs, decisions: o.decisions, trace: o.trace, error: o.error }
}

fn configs(thorough: bool) -> Vec<(Vec<Body>, usize)> {
    use Body::*;
    if thorough {
        vec![
            (vec![Mh, Mh], 5),
            (vec![Gibbs, Gibbs], 5),
            (vec![Hmc, Hmc], 4),
            (vec![Nuts, Nuts], 3),
            (vec![Mh, Hmc], 4),
            (vec![Mh, Nuts], 3),
            (vec![Gibbs, Hmc], 4),
            (vec![Hmc, Nuts], 3),
            (vec![Mh, Gibbs], 4),
            (vec![Gibbs, Nuts], 3),
            (vec![Mh, Hmc, Nuts], 3),
            (vec![Hmc, Hmc, Hmc], 3),
            (vec![Mh, Gibbs, Hmc], 3),
        ]
    } else {
        vec![(vec![Mh, Mh], 2), (vec![Gibbs, Gibbs], 2), (vec![Hmc, Hmc], 2), (vec![Nuts, Nuts], 1), (vec![Mh, Hmc], 2), (vec![Hmc, Nuts], 1), (vec![Mh, Gibbs, Hmc], 1)]
    }
}

fn check_exec(ctx: &Ctx, bodies: &[Body], solo: &[Vec<u64>], ex: &Exec, prefix: &[u32]) {
    let names: Vec<&str> = bodies.iter().map(|b| b.name()).collect();
    let case = json!({"part": "interleaving", "threads": names, "schedule": prefix});
    for (i, out) in ex.outputs.iter().enumerate() {
        match out {
            Err(m) => ctx.violation(Violation::new(format!("C07:panic-under-interleaving({})", names[i]), format!("thread {i} ({}) panicked: {m}", names[i]), case.clone())),
            Ok(o) => {
                if *o != solo[i] {
                    let partners: Vec<&str> = names.iter().enumerate().filter(|(j, _)| *j != i).map(|(_, n)| *n).collect();
                    ctx.violation(Violation::new(
                        format!("C07:interleaving-dependence({})", names[i]),
                        format!("thread {i} ({}) running concurrently with {partners:?} returns draws different from the same sampler run alone (schedule {prefix:?}, trace head {:?})", names[i], ex.trace.iter().take(8).collect::<Vec<_>>()),
                        case.clone(),
                    ));
                }
            }
        }
    }
}

pub fn interleavings(ctx: &Ctx) {
    LONG.store(ctx.tier.thorough(), std::sync::atomic::Ordering::SeqCst);
    let mut total_exec = 0u64;
    let mut total_dec = 0u64;
    let mut bounds = vec![];
    for (bodies, bound) in configs(ctx.tier.thorough()) {
        let solo: Vec<Vec<u64>> = bodies.iter().enumerate().map(|(i, b)| run_body(*b, i as u64, Pt { sess: None, name: String::new(), rank: 0 })).collect();
        // the solo run itself must be reproducible, else the oracle is meaningless for this body
        let solo2: Vec<Vec<u64>> = bodies.iter().enumerate().map(|(i, b)| run_body(*b, i as u64, Pt { sess: None, name: String::new(), rank: 0 })).collect();
        let names: Vec<&str> = bodies.iter().map(|b| b.name()).collect();
        let mut skip = false;
        for i in 0..bodies.len() {
            if solo[i] != solo2[i] {
                ctx.violation(Violation::new(
                    format!("C07:not-reproducible({})", names[i]),
                    format!("{} chain built twice from the same seed and run alone returns different draws", names[i]),
                    json!({"part": "interleaving", "threads": names, "schedule": [], "solo": true}),
                ));
                skip = true;
            }
        }
        if skip {
            ctx.outcome("interleaving-configs-skipped(solo not reproducible)", 1);
            continue;
        }
        let mut first_trace: Option<Vec<String>> = None;
        let mut distinct_traces = std::collections::HashSet::new();
        let mut n = 0u64;
        let res = explore(bound, ctx.tier.pick(4000, 400000), |prefix| {
            let ex = execute(&bodies, prefix);
            if let Some(e) = &ex.error {
                return Err(format!("{e} (threads {names:?}, schedule {prefix:?})"));
            }
            check_exec(ctx, &bodies, &solo, &ex, prefix);
            distinct_traces.insert(hash_of(&ex.trace));
            // replay determinism: the first few executions are run twice and must give identical traces
            if n < 3 {
                let ex2 = execute(&bodies, prefix);
                if ex2.trace != ex.trace || ex2.decisions != ex.decisions {
                    return Err(format!("nondeterministic replay of schedule {prefix:?} for threads {names:?}"));
                }
            }
            if first_trace.is_none() {
                first_trace = Some(ex.trace.clone());
            }
            n += 1;
            Ok(ex.decisions)
        });
        match res {
            Err(e) => {
                ctx.machinery_error(format!("E2 exploration failed: {e}"));
                return;
            }
            Ok(st) => {
                total_exec += st.executions;
                total_dec += st.decisions;
                ctx.evals(st.executions);
                ctx.transitions(st.decisions);
                ctx.traces(st.executions);
                ctx.states_bulk(distinct_traces.iter().cloned());
                ctx.distinct_bulk(distinct_traces.iter().cloned());
                if st.capped {
                    ctx.cap(&format!("interleavings of {names:?}: execution cap hit at deviation bound {bound}"));
                }
                bounds.push(json!({"threads": names, "deviation_bound": bound, "executions": st.executions, "distinct_schedules_observed": distinct_traces.len(), "max_decisions_per_execution": st.max_decisions}));
                if ctx.n_samples() < 4 {
                    ctx.sample(json!({"interleaving": {"threads": names, "default_schedule_trace": first_trace.clone().unwrap_or_default().into_iter().take(12).collect::<Vec<_>>()}}));
                }
                if distinct_traces.len() < 2 {
                    ctx.machinery_error(format!("vacuity guard: only one schedule observed for {names:?}"));
                }
            }
        }
    }
    ctx.extra("interleaving_configs", Value::Array(bounds));
    ctx.outcome("interleaving-executions", total_exec);
    let _ = total_dec;
}

pub fn replay(ctx: &Ctx, case: &Value) {
    let Some(names) = case["threads"].as_array() else { return };
    let bodies: Vec<Body> = names.iter().filter_map(|n| n.as_str().and_then(Body::from)).collect();
    let prefix: Vec<u32> = case["schedule"].as_array().map(|a| a.iter().map(|x| x.as_u64().unwrap_or(0) as u32).collect()).unwrap_or_default();
    let solo: Vec<Vec<u64>> = bodies.iter().enumerate().map(|(i, b)| run_body(*b, i as u64, Pt { sess: None, name: String::new(), rank: 0 })).collect();
    let solo2: Vec<Vec<u64>> = bodies.iter().enumerate().map(|(i, b)| run_body(*b, i as u64, Pt { sess: None, name: String::new(), rank: 0 })).collect();
    for i in 0..bodies.len() {
        if solo[i] != solo2[i] {
            ctx.violation(Violation::new(format!("C07:not-reproducible({})", bodies[i].name()), "solo run not reproducible", case.clone()));
            return;
        }
    }
    let ex = execute(&bodies, &prefix);
    check_exec(ctx, &bodies, &solo, &ex, &prefix);
}
