//! C16 — Categorical: normalised probabilities, exact logp, samples follow probs, never a zero-probability category.
use crate::common::*;
use mini_mcmc::distributions::{Categorical, Discrete, Target};
use mini_mcmc::verif;
use rayon::prelude::*;
use serde_json::{json, Value};
use std::cell::Cell;
use std::rc::Rc;

const U24: f64 = 1.0 / 16777216.0;

/// Install a tap that replaces the categorical variate by successive values from `next`.
fn with_variates<R>(next: Rc<Cell<f64>>, f: impl FnOnce() -> R) -> R {
    let n2 = next.clone();
    let prev = verif::set_tap(Some(Box::new(move |label, vals| {
        if label == "categorical.r" {
            vals[0] = n2.get();
        }
    })));
    let r = f();
    verif::set_tap(prev);
    r
}

fn weights_json(w: &[f64]) -> Value {
    jfs(w)
}

/// Static checks (normalisation, logp) + boundary probes, generic over f32/f64 through closures.
struct Probe {
    probs: Vec<f64>,
    /// sample with the variate forced to r
    sample_at: Box<dyn FnMut(f64) -> Result<usize, String>>,
    logp: Box<dyn Fn(usize) -> f64>,
    target_logp: Box<dyn Fn(usize) -> f64>,
    ulp1: f64, // unit of the variate grid (2^-24 or 2^-53)
    eps: f64,
}

fn make_probe_f32(w: &[f64]) -> Probe {
    let wf: Vec<f32> = w.iter().map(|x| *x as f32).collect();
    let cat = Categorical::<f32>::new(wf);
    let probs: Vec<f64> = cat.probs.iter().map(|x| *x as f64).collect();
    let c2 = cat.clone();
    let c3 = cat.clone();
    let mut cs = cat;
    let cell = Rc::new(Cell::new(0.0f64));
    Probe {
        probs,
        sample_at: Box::new(move |r| {
            cell.set(r);
            let cl = cell.clone();
            with_variates(cl, || catch(|| cs.sample()))
        }),
        logp: Box::new(move |i| c2.logp(i) as f64),
        target_logp: Box::new(move |i| <Categorical<f32> as Target<usize, f32>>::unnorm_logp(&c3, &[i]) as f64),
        ulp1: U24,
        eps: f32::EPSILON as f64,
    }
}

fn make_probe_f64(w: &[f64]) -> Probe {
    let cat = Categorical::<f64>::new(w.to_vec());
    let probs: Vec<f64> = cat.probs.clone();
    let c2 = cat.clone();
    let c3 = cat.clone();
    let mut cs = cat;
    let cell = Rc::new(Cell::new(0.0f64));
    Probe {
        probs,
        sample_at: Box::new(move |r| {
            cell.set(r);
            let cl = cell.clone();
            with_variates(cl, || catch(|| cs.sample()))
        }),
        logp: Box::new(move |i| c2.logp(i)),
        target_logp: Box::new(move |i| <Categorical<f64> as Target<usize, f64>>::unnorm_logp(&c3, &[i])),
        ulp1: 1.0 / 9007199254740992.0,
        eps: f64::EPSILON,
    }
}

fn check_static_and_probes(ctx: &Ctx, ty: &str, w: &[f64]) {
    let case = json!({"ty": ty, "weights": weights_json(w), "mode": "probe"});
    let mk = |key: &str, what: String| Violation::new(key, what, case.clone());
    let mut pr = match catch(|| if ty == "f32" { make_probe_f32(w) } else { make_probe_f64(w) }) {
        Ok(p) => p,
        Err(m) => {
            ctx.violation(mk("C16:panic", format!("Categorical::new panicked: {m}")));
            return;
        }
    };
    ctx.evals(1);
    let len = w.len();
    let sumw: f64 = w.iter().sum();
    // normalisation
    let sump: f64 = pr.probs.iter().sum();
    if pr.probs.len() != len || pr.probs.iter().any(|p| !(*p >= 0.0)) || (sump - 1.0).abs() > (len as f64 + 1.0) * pr.eps {
        ctx.violation(mk("C16:normalisation", format!("stored probabilities {:?} are not a distribution (sum {sump})", pr.probs)));
    }
    for i in 0..len {
        let want = w[i] / sumw;
        if (pr.probs[i] - want).abs() > 2.0 * pr.eps * want.max(1e-300) + 1e-300 {
            ctx.violation(mk("C16:normalisation", format!("p[{i}] = {} but weight/sum = {want}", pr.probs[i])));
        }
        let lp = (pr.logp)(i);
        let wl = pr.probs[i].ln();
        let ok = if wl == f64::NEG_INFINITY { lp == f64::NEG_INFINITY } else { (lp - wl).abs() <= 4.0 * pr.eps * wl.abs().max(1.0) };
        if !ok {
            ctx.violation(mk("C16:logp", format!("logp({i}) = {lp}, ln p_i = {wl}")));
        }
        if (pr.target_logp)(i).to_bits() != lp.to_bits() {
            ctx.violation(mk("C16:logp", format!("Target::unnorm_logp([{i}]) differs from logp({i})")));
        }
    }
    for i in [len, len + 1, len + 1000, usize::MAX] {
        if (pr.logp)(i) != f64::NEG_INFINITY || (pr.target_logp)(i) != f64::NEG_INFINITY {
            ctx.violation(mk("C16:logp", format!("logp({i}) out of range is not -inf")));
        }
    }
    // boundary probes
    let u = pr.ulp1;
    let maxv = 1.0 - u;
    let mut probes: Vec<f64> = vec![0.0, u, 2.0 * u, maxv, maxv - u, 0.5];
    let mut cum_t = 0.0f64; // cumulative sums in the element type's arithmetic
    for p in pr.probs.iter() {
        cum_t = if ty == "f32" { ((cum_t as f32) + (*p as f32)) as f64 } else { cum_t + p };
        let grid = (cum_t / u).round() * u;
        for d in -3i32..=3 {
            let v = grid + d as f64 * u;
            if (0.0..=maxv).contains(&v) {
                probes.push(v);
            }
        }
    }
    probes.sort_by(|a, b| a.partial_cmp(b).unwrap());
    probes.dedup();
    // exact cumulative law of the stored probabilities
    let mut cums = vec![0.0f64];
    for p in pr.probs.iter() {
        cums.push(cums.last().unwrap() + p);
    }
    let slack = (len as f64 + 2.0) * pr.eps;
    let mut prev_idx = 0usize;
    for (j, r) in probes.iter().enumerate() {
        ctx.transitions(1);
        let idx = match (pr.sample_at)(*r) {
            Ok(i) => i,
            Err(m) => {
                ctx.violation(mk("C16:panic", format!("sample panicked at variate {r}: {m}")));
                return;
            }
        };
        if idx >= len {
            ctx.violation(mk("C16:range", format!("variate {r} -> index {idx} out of range (len {len})")));
            continue;
        }
        if !(pr.probs[idx] > 0.0) {
            let which = if *r == 0.0 { "r==0" } else if *r >= maxv - u { "r==max" } else { "interior" };
            ctx.violation(mk(&format!("C16:zero-prob-category({which})"), format!("variate {r} selects category {idx} whose probability is 0 (probs {:?})", pr.probs)));
            ctx.outcome("zero-prob-selected", 1);
        } else if !(*r >= cums[idx] - slack && *r <= cums[idx + 1] + slack) {
            ctx.violation(mk("C16:law", format!("variate {r} selects category {idx} whose cumulative interval is [{}, {}]", cums[idx], cums[idx + 1])));
        }
        if j > 0 && idx < prev_idx {
            ctx.violation(mk("C16:monotone", format!("sampled index decreases ({prev_idx} -> {idx}) as the variate grows to {r}")));
        }
        prev_idx = idx;
    }
    if w.len() == 3 && w.iter().any(|x| *x == 0.0) {
        ctx.sample_tagged("boundary probes", || json!({"input": case.clone(), "probs": pr.probs, "variates_probed": probes.len()}));
    }
    ctx.outcome("probed-vectors", 1);
}

/// Full sweep over all 2^24 f32 variates.
fn sweep_f32(ctx: &Ctx, w: &[f64]) {
    let case = json!({"ty": "f32", "weights": weights_json(w), "mode": "sweep"});
    let mk = |key: &str, what: String| Violation::new(key, what, case.clone());
    let wf: Vec<f32> = w.iter().map(|x| *x as f32).collect();
    let mut cat = Categorical::<f32>::new(wf);
    let probs: Vec<f64> = cat.probs.iter().map(|x| *x as f64).collect();
    let len = probs.len();
    let cell = Rc::new(Cell::new(0.0f64));
    let c2 = cell.clone();
    let mut counts = vec![0u64; len];
    let mut bad_zero: Option<(f64, usize)> = None;
    let mut bad_range: Option<(f64, usize)> = None;
    let mut bad_mono: Option<(f64, usize, usize)> = None;
    let res = with_variates(c2, || {
        catch(|| {
            let mut prev = 0usize;
            for k in 0u32..(1 << 24) {
                let r = k as f64 * U24;
                cell.set(r);
                let idx = cat.sample();
                if idx >= len {
                    bad_range.get_or_insert((r, idx));
                    continue;
                }
                counts[idx] += 1;
                if !(probs[idx] > 0.0) {
                    bad_zero.get_or_insert((r, idx));
                }
                if idx < prev {
                    bad_mono.get_or_insert((r, prev, idx));
                }
                prev = idx;
            }
        })
    });
    ctx.evals(1);
    ctx.transitions(1 << 24);
    ctx.outcome("full-2^24-sweeps", 1);
    if let Err(m) = res {
        ctx.violation(mk("C16:panic", format!("sample panicked during the sweep: {m}")));
        return;
    }
    if let Some((r, idx)) = bad_range {
        ctx.violation(mk("C16:range", format!("variate {r} -> index {idx} out of range")));
    }
    if let Some((r, idx)) = bad_zero {
        let which = if r == 0.0 { "r==0" } else if r >= 1.0 - 2.0 * U24 { "r==max" } else { "interior" };
        ctx.violation(mk(&format!("C16:zero-prob-category({which})"), format!("variate {r} selects category {idx} whose probability is 0 (probs {probs:?})")));
        ctx.outcome("zero-prob-selected", 1);
    }
    if let Some((r, a, b)) = bad_mono {
        ctx.violation(mk("C16:monotone", format!("sampled index decreases ({a} -> {b}) at variate {r}")));
    }
    for i in 0..len {
        let freq = counts[i] as f64 * U24;
        if (freq - probs[i]).abs() > (len as f64 + 1.0) * U24 {
            ctx.violation(mk("C16:law", format!("category {i}: {} of 2^24 variates ({freq}) but p = {}", counts[i], probs[i])));
        }
    }
    ctx.sample_tagged("full 2^24 sweep", || json!({"input": case.clone(), "probs": probs, "count_per_category": counts}));
    ctx.distinct(hash_f64s("sweep", w) ^ hash_of(&counts));
}

fn strided_f64(ctx: &Ctx, w: &[f64]) {
    // 2^20-point strided sweep on the 2^-53 grid — declared NON-exhaustive
    let mut pr = make_probe_f64(w);
    let case = json!({"ty": "f64", "weights": weights_json(w), "mode": "strided"});
    let len = w.len();
    let mut counts = vec![0u64; len];
    let n = 1u64 << 20;
    for k in 0..n {
        let r = (k as f64 + 0.5) / n as f64;
        ctx.transitions(1);
        match (pr.sample_at)(r) {
            Ok(i) if i < len => {
                counts[i] += 1;
                if !(pr.probs[i] > 0.0) {
                    ctx.violation(Violation::new("C16:zero-prob-category(interior)", format!("variate {r} selects zero-probability category {i}"), case.clone()));
                    return;
                }
            }
            Ok(i) => {
                ctx.violation(Violation::new("C16:range", format!("variate {r} -> index {i}"), case.clone()));
                return;
            }
            Err(m) => {
                ctx.violation(Violation::new("C16:panic", m, case.clone()));
                return;
            }
        }
    }
    for i in 0..len {
        if (counts[i] as f64 / n as f64 - pr.probs[i]).abs() > (len as f64 + 1.0) / n as f64 {
            ctx.violation(Violation::new("C16:law", format!("f64 strided sweep: category {i} frequency {} vs p {}", counts[i] as f64 / n as f64, pr.probs[i]), case.clone()));
        }
    }
    ctx.outcome("strided-f64-sweeps(non-exhaustive)", 1);
}

fn all_vectors(maxlen: usize, top: u32) -> Vec<Vec<f64>> {
    let mut out = vec![];
    for l in 1..=maxlen {
        let total = (top as u64 + 1).pow(l as u32);
        for idx in 0..total {
            let mut i = idx;
            let v: Vec<f64> = (0..l)
                .map(|_| {
                    let d = i % (top as u64 + 1);
                    i /= top as u64 + 1;
                    d as f64
                })
                .collect();
            if v.iter().any(|x| *x > 0.0) {
                out.push(v);
            }
        }
    }
    out
}

/// Rounding-critical f32 vectors: normalised cumulative sum below / equal to the largest variate.
fn f32_final_cum(w: &[f64]) -> f32 {
    let wf: Vec<f32> = w.iter().map(|x| *x as f32).collect();
    let s: f32 = wf.iter().fold(0.0, |a, x| a + x);
    wf.iter().map(|x| x / s).fold(0.0f32, |a, x| a + x)
}

fn zero_block_families() -> Vec<Vec<f64>> {
    let mut out = vec![];
    for len in [7usize, 8, 16, 33, 64] {
        for z in 0..len {
            // a zero at each position, other weights a ramp (unnormalised)
            out.push((0..len).map(|i| if i == z { 0.0 } else { 1.0 + (i % 5) as f64 }).collect());
        }
        for b in [1usize, 2, len / 2, len - 1] {
            out.push((0..len).map(|i| if i < b { 0.0 } else { 0.5 + i as f64 * 0.25 }).collect()); // leading zeros
            out.push((0..len).map(|i| if i >= len - b { 0.0 } else { 3.0 - (i % 3) as f64 }).collect()); // trailing zeros
        }
        out.push((0..len).map(|i| if i % 2 == 0 { 0.0 } else { 1e-3 * (i as f64 + 1.0) }).collect());
        out.push((0..len).map(|i| if i == len / 3 { 1e6 } else { 1e-6 }).collect());
    }
    out
}

pub fn run(ctx: &Ctx) {
    ctx.rule("weights: every vector over {0..7} of length 1..6 (all-zero excluded) + zero-block families up to length 64 + short vectors scaled by {1e-44..1e30} (f32) / {5e-324..1e300} (f64) incl. subnormal totals + nearly-normalised vectors (one entry of a probability vector perturbed by 1e-9..1e-3 relative), f32 and f64; every vector: normalisation, logp, boundary probes (0, 2^-24, each cumulative sum +-3 grid units, 1-ulp) with range / p>0 / law / monotonicity oracles; f32 vectors in the sweep set: ALL 2^24 variates (injected through the tap on the real sample()). states = distinct (type, weight vector); transitions = sample() calls; non-trivial = a swept vector, distinct by (weights, per-category counts)");
    // injection premise
    {
        let mut pr = make_probe_f32(&[1.0, 1.0]);
        let a = (pr.sample_at)(0.25);
        let b = (pr.sample_at)(0.75);
        if a != Ok(0) || b != Ok(1) {
            ctx.machinery_error(format!("cannot inject the categorical variate (tap 'categorical.r' not effective): {a:?} {b:?}"));
            return;
        }
    }
    let top = 7u32;
    let maxlen = ctx.tier.pick(5usize, 6);
    let all = all_vectors(maxlen, top);
    ctx.extra("alphabet_vectors", json!(all.len()));
    for ty in ["f32", "f64"] {
        all.par_iter().for_each(|w| {
            check_static_and_probes(ctx, ty, w);
            ctx.state(hash_f64s(ty, w));
        });
        zero_block_families().par_iter().for_each(|w| {
            check_static_and_probes(ctx, ty, w);
            ctx.state(hash_f64s(ty, w));
        });
    }
    // scaled (unnormalised) weights: the same short vectors multiplied by extreme but finite scales, incl. subnormal totals
    let short = all_vectors(3, 3);
    for (ty, scales) in [("f32", vec![1e-44, 1e-40, 1e-30, 3.0e-20, 1e20, 1e30]), ("f64", vec![5e-324, 1e-310, 1e-300, 1e-150, 1e150, 1e300])] {
        for sc in scales {
            short.par_iter().for_each(|w| {
                let ws: Vec<f64> = w.iter().map(|x| if ty == "f32" { ((x * sc) as f32) as f64 } else { x * sc }).collect();
                if ws.iter().any(|x| *x > 0.0) && ws.iter().all(|x| x.is_finite()) {
                    check_static_and_probes(ctx, ty, &ws);
                    ctx.state(hash_f64s(ty, &ws));
                }
            });
        }
    }
    // nearly-normalised weights: a probability vector with one entry perturbed by a small relative amount
    let base: Vec<Vec<f64>> = all_vectors(4, 3).into_iter().filter(|v| v.len() >= 2).collect();
    for ty in ["f32", "f64"] {
        for delta in [1e-9, -1e-9, 3e-8, 1e-5, -1e-5, 2e-4, -3e-4, 1e-3] {
            base.par_iter().for_each(|w| {
                let sum: f64 = w.iter().sum();
                let mut p: Vec<f64> = w.iter().map(|x| x / sum).collect();
                if let Some(k) = p.iter().position(|x| *x > 0.0) {
                    p[k] *= 1.0 + delta;
                }
                let p: Vec<f64> = p.iter().map(|x| if ty == "f32" { (*x as f32) as f64 } else { *x }).collect();
                check_static_and_probes(ctx, ty, &p);
                ctx.state(hash_f64s(ty, &p));
            });
        }
    }
    // the public `probs` field re-assigned after construction: sampling and logp must follow the new probabilities
    for ty in ["f32", "f64"] {
        for (w0, p1) in [(vec![1.0, 1.0, 2.0], vec![0.5, 0.0, 0.5]), (vec![0.0, 3.0], vec![0.75, 0.25]), (vec![1.0, 1.0, 1.0, 1.0], vec![0.0, 0.0, 0.25, 0.75])] {
            let case = json!({"ty": ty, "weights": weights_json(&w0), "probs_assigned_afterwards": p1, "mode": "reassign"});
            ctx.evals(1);
            let grid = if ty == "f32" { U24 } else { 1.0 / 9007199254740992.0 };
            let mut cums = vec![0.0];
            for p in p1.iter() {
                cums.push(cums.last().unwrap() + p);
            }
            let mut probes = vec![0.0, grid, 0.1, 0.4, 0.6, 0.9, 1.0 - grid];
            for cu in cums.iter() {
                for dl in [-2.0, -1.0, 1.0, 2.0] {
                    let v = cu + dl * grid;
                    if (0.0..1.0).contains(&v) {
                        probes.push(v);
                    }
                }
            }
            for r in probes {
                let cell = Rc::new(Cell::new(r));
                let idx = if ty == "f32" {
                    let mut c = Categorical::<f32>::new(w0.iter().map(|x| *x as f32).collect());
                    c.probs = p1.iter().map(|x| *x as f32).collect();
                    let lp_ok = (0..p1.len()).all(|i| (c.logp(i) as f64 - (p1[i] as f32).ln() as f64).abs() < 1e-6 || (p1[i] == 0.0 && c.logp(i) == f32::NEG_INFINITY));
                    if !lp_ok {
                        ctx.violation(Violation::new("C16:logp-after-reassign", "logp does not reflect the re-assigned probabilities", case.clone()));
                    }
                    with_variates(cell, || catch(|| c.sample()))
                } else {
                    let mut c = Categorical::<f64>::new(w0.clone());
                    c.probs = p1.clone();
                    with_variates(cell, || catch(|| c.sample()))
                };
                ctx.transitions(1);
                match idx {
                    Ok(i) if i < p1.len() && p1[i] > 0.0 && r >= cums[i] - 4.0 * grid && r <= cums[i + 1] + 4.0 * grid => ctx.outcome("reassigned-probs probes ok", 1),
                    Ok(i) => ctx.violation(Violation::new("C16:sample-after-reassign", format!("after assigning probs = {p1:?} the variate {r} selects category {i}"), case.clone())),
                    Err(m) => ctx.violation(Violation::new("C16:panic", m, case.clone())),
                }
            }
        }
    }
    // sweep set
    let mut sweep: Vec<Vec<f64>> = all_vectors(ctx.tier.pick(2, 3), top);
    // zero-containing short vectors over {0..3}
    let extra_len = ctx.tier.pick(3usize, 5);
    sweep.extend(all_vectors(extra_len, 3).into_iter().filter(|v| v.len() > ctx.tier.pick(2, 3)));
    // rounding-critical vectors (cumulative sum < or == largest variate) with a trailing zero
    let maxv = 1.0f32 - (U24 as f32);
    let critical: Vec<Vec<f64>> = all_vectors(6, top)
        .into_iter()
        .filter(|v| v.len() >= 3 && *v.last().unwrap() == 0.0 && f32_final_cum(v) <= maxv)
        .collect();
    let below: Vec<Vec<f64>> = critical.iter().filter(|v| f32_final_cum(v) < maxv).cloned().collect();
    ctx.extra("rounding_critical_vectors", json!({"cum<=max_variate & trailing zero": critical.len(), "cum<max_variate": below.len()}));
    sweep.extend(below.iter().cloned());
    if ctx.tier.thorough() {
        sweep.extend(critical.iter().cloned());
        sweep.extend(zero_block_families().into_iter().filter(|v| v.len() <= 16));
    } else {
        sweep.extend(critical.iter().take(40).cloned());
        sweep.extend(zero_block_families().into_iter().filter(|v| v.len() <= 8).take(12));
    }
    sweep.sort_by(|a, b| a.partial_cmp(b).unwrap());
    sweep.dedup();
    ctx.extra("full_sweep_vectors", json!(sweep.len()));
    sweep.par_iter().for_each(|w| sweep_f32(ctx, w));
    // f64 strided sweeps (non-exhaustive, declared)
    let strided: Vec<Vec<f64>> = all_vectors(2, 3).into_iter().chain(below.iter().take(4).cloned()).collect();
    strided.par_iter().for_each(|w| strided_f64(ctx, w));
    ctx.assume("f64: only boundary probes are exhaustive over their set; the 2^20 strided sweep is a sample of the 2^53 grid (declared non-exhaustive); the generator's uniformity itself is trusted");
    if ctx.outcome_count("full-2^24-sweeps") < 10 {
        ctx.machinery_error("vacuity guard: fewer than 10 full sweeps ran");
    }
}

pub fn check_case(ctx: &Ctx, case: &Value) {
    let w = pfs(&case["weights"]);
    let ty = case["ty"].as_str().unwrap_or("f32");
    match case["mode"].as_str() {
        Some("sweep") => sweep_f32(ctx, &w),
        Some("strided") => strided_f64(ctx, &w),
        Some("reassign") => run(ctx),
        _ => check_static_and_probes(ctx, ty, &w),
    }
}
