//! C11 — split R-hat = sqrt(var+/W) on the half-chains, derived clauses, and the run summary.
use super::statsgen::*;
use crate::common::*;
use crate::refs::*;
use mini_mcmc::stats::{basic_stats, split_rhat_mean_ess, RunStats};
use ndarray::Array1;
use rayon::prelude::*;
use serde_json::{json, Value};
use std::sync::atomic::{AtomicU64, Ordering};
use std::sync::Mutex;

thread_local! {
    /// Memory layout in which the NEXT library calls of this thread receive their sample array (0 = standard).
    pub static LAYOUT: std::cell::Cell<u8> = const { std::cell::Cell::new(0) };
}
pub const LAYOUT_NAMES: [&str; 5] = [
    "standard (row-major) array",
    "Fortran-ordered array",
    "axis-permuted view of a draws-major buffer",
    "axis-permuted view of a params-major buffer",
    "strided view (every other draw of a longer buffer, walked backwards)",
];
pub fn with_layout<R>(l: u8, f: impl FnOnce() -> R) -> R {
    let old = LAYOUT.with(|c| c.replace(l));
    let r = f();
    LAYOUT.with(|c| c.set(old));
    r
}
pub fn case_with_layout(case: &Value, l: u8) -> Value {
    let mut c = case.clone();
    if l != 0 {
        c["layout"] = json!(l);
        c["layout_name"] = json!(LAYOUT_NAMES[l as usize]);
    }
    c
}
/// Hand the SAME logical (chain, draw, param) array to `f` as a view in the thread's current LAYOUT.
pub fn view_in_layout<R>(a: &Arr3, f: impl FnOnce(ndarray::ArrayView3<f32>) -> R) -> R {
    use ndarray::{s, Array3, ShapeBuilder};
    let (c, n, p) = arr3_dims(a);
    match LAYOUT.with(|l| l.get()) {
        0 => f(to_nd(a).view()),
        1 => {
            let mut m = Array3::<f32>::zeros((c, n, p).f());
            for i in 0..c { for j in 0..n { for k in 0..p { m[[i, j, k]] = a[i][j][k]; } } }
            f(m.view())
        }
        2 => {
            let mut m = Array3::<f32>::zeros((n, c, p));
            for i in 0..c { for j in 0..n { for k in 0..p { m[[j, i, k]] = a[i][j][k]; } } }
            f(m.view().permuted_axes([1, 0, 2]))
        }
        3 => {
            let mut m = Array3::<f32>::zeros((p, n, c));
            for i in 0..c { for j in 0..n { for k in 0..p { m[[k, j, i]] = a[i][j][k]; } } }
            f(m.view().permuted_axes([2, 1, 0]))
        }
        _ => {
            // draws live at the odd positions of a buffer of 2n+1 draws, in reverse order; the even positions hold junk
            let mut m = Array3::<f32>::from_elem((c, 2 * n + 1, p), 7.0e3);
            for i in 0..c { for j in 0..n { for k in 0..p { m[[i, 1 + 2 * (n - 1 - j), k]] = a[i][j][k]; } } }
            let v = m.view();
            let v = v.slice(s![.., 1..2 * n;-2, ..]);
            f(v)
        }
    }
}

pub fn impl_split(a: &Arr3) -> Result<(Vec<f32>, Vec<f32>), String> {
    catch(|| {
        view_in_layout(a, |v| {
            let (r, e) = split_rhat_mean_ess(v);
            (r.to_vec(), e.to_vec())
        })
    })
}

pub fn rhat_tol(st: &SplitStats) -> f64 {
    3e-5 + 6.0 * 1.2e-7 * st.cond.min(1e12)
}

/// Which divisor convention (0: n, 1: n-1) the implementation follows: decided over the whole run.
pub struct Conv {
    pub fails: [AtomicU64; 2],
    pub firsts: Mutex<[Vec<Violation>; 2]>,
    pub worst_ratio: Mutex<f64>,
}
impl Conv {
    pub fn new() -> Self {
        Conv { fails: [AtomicU64::new(0), AtomicU64::new(0)], firsts: Mutex::new([vec![], vec![]]), worst_ratio: Mutex::new(0.0) }
    }
    pub fn fail(&self, conv: usize, v: Violation) {
        self.fails[conv].fetch_add(1, Ordering::Relaxed);
        let mut g = self.firsts.lock().unwrap();
        if g[conv].len() < 3 {
            g[conv].push(v);
        }
    }
    pub fn ratio(&self, r: f64) {
        let mut g = self.worst_ratio.lock().unwrap();
        if r > *g {
            *g = r;
        }
    }
    /// Report: the convention with fewer failures is the implementation's; its failures are violations.
    pub fn settle(&self, ctx: &Ctx) {
        let f0 = self.fails[0].load(Ordering::Relaxed);
        let f1 = self.fails[1].load(Ordering::Relaxed);
        let which = if f0 <= f1 { 0 } else { 1 };
        ctx.extra("divisor_convention_matched", json!(if which == 0 { "n (ddof 0)" } else { "n-1 (ddof 1)" }));
        ctx.extra("mismatches_under_ddof0", json!(f0));
        ctx.extra("mismatches_under_ddof1", json!(f1));
        ctx.extra("worst_error_over_tolerance", json!(*self.worst_ratio.lock().unwrap()));
        let g = self.firsts.lock().unwrap();
        let n = if which == 0 { f0 } else { f1 };
        for v in g[which].iter() {
            ctx.violation(v.clone());
        }
        if n > 0 {
            ctx.outcome("value-mismatch(all)", n);
        }
    }
}

fn degenerate(x: f64) -> bool {
    !x.is_finite() || x > 1e6
}

/// Compare the implementation's R-hat of every parameter of `a` with the reference.
pub fn check_rhat_values(ctx: &Ctx, conv: &Conv, a: &Arr3, case: &Value, rh: &[f32]) {
    let (_, _, p) = arr3_dims(a);
    for k in 0..p {
        let halves = half_chains(a, k);
        let got = rh[k] as f64;
        let mut ok_any = false;
        for ddof in 0..2 {
            if halves[0].len() < 2 && ddof == 1 {
                continue;
            }
            let st = split_stats(&halves, ddof);
            let ok = if st.w <= 0.0 || !st.rhat.is_finite() {
                ctx.outcome("degenerate(W=0)", if ddof == 0 { 1 } else { 0 });
                degenerate(got)
            } else {
                let tol = rhat_tol(&st);
                let err = (got - st.rhat).abs() / st.rhat;
                if ddof == 0 {
                    conv.ratio(if err.is_finite() { err / tol } else { f64::INFINITY }.min(1e9));
                }
                err <= tol
            };
            ok_any |= ok;
            if !ok {
                conv.fail(
                    ddof,
                    Violation::new(
                        "C11:rhat-value",
                        format!("split R-hat of parameter {k}: implementation {got}, reference sqrt(var+/W) = {} (W={}, B={}, var+={}, n={}, m={}, ddof={ddof})", st.rhat, st.w, st.b, st.varplus, st.n, st.m),
                        case.clone(),
                    ),
                );
            }
        }
        ctx.outcome(if ok_any { "value-match" } else { "value-mismatch(both conventions)" }, 1);
        // derived clause: never below sqrt((n-1)/n)
        let st = split_stats(&halves, 0);
        if st.w > 0.0 && got.is_finite() {
            let lb = ((st.n as f64 - 1.0) / st.n as f64).sqrt();
            if got < lb * (1.0 - rhat_tol(&st)) {
                ctx.violation(Violation::new(
                    "C11:lower-bound",
                    format!("split R-hat {got} of parameter {k} is below sqrt((n-1)/n) = {lb} (n={})", st.n),
                    case.clone(),
                ));
            }
        }
    }
}

fn check_array(ctx: &Ctx, conv: &Conv, a: &Arr3, case: &Value) -> Option<Vec<f32>> {
    ctx.evals(1);
    ctx.transitions(1);
    match impl_split(a) {
        Err(m) => {
            ctx.violation(Violation::new("C11:panic", format!("split_rhat_mean_ess panicked: {m}"), case.clone()));
            None
        }
        Ok((rh, _)) => {
            check_rhat_values(ctx, conv, a, case, &rh);
            Some(rh)
        }
    }
}

fn rel_close(a: f64, b: f64, tol: f64) -> bool {
    if !a.is_finite() || !b.is_finite() {
        return degenerate(a) == degenerate(b) || (a.is_nan() && b.is_nan());
    }
    (a - b).abs() <= tol * a.abs().max(b.abs()).max(1e-30)
}

/// Metamorphic clauses on one base array.
fn metamorphic(ctx: &Ctx, a: &Arr3, case: &Value) {
    let (c, n, p) = arr3_dims(a);
    let Ok((base, _)) = impl_split(a) else { return };
    let st0 = split_stats(&half_chains(a, 0), 0);
    if st0.w <= 0.0 {
        return;
    }
    let tol = 4.0 * rhat_tol(&st0);
    // affine maps
    for (sc, sh) in [(2.0f32, 0.0f32), (0.5, 0.0), (1024.0, 0.0), (-3.0, 0.0), (1.0, 10.0), (-1.0, -7.0), (0.125, 3.0), (2f32.powi(-12), 0.0), (2f32.powi(-20), 0.0), (2f32.powi(-40), 0.0), (2f32.powi(40), 0.0)] {
        // a transformed copy must stay representable in f32 statistics: squares far from overflow/underflow and
        // location/scale within f32 conditioning (otherwise the input itself, not the diagnostic, is destroyed)
        let maxabs = a.iter().flatten().flatten().fold(0.0f64, |m, x| m.max(x.abs() as f64));
        let (new_max, new_sd) = ((sc.abs() as f64) * maxabs + sh.abs() as f64, (sc.abs() as f64) * st0.w.sqrt());
        if new_max > 1e12 || new_sd < 1e-12 || new_max / new_sd > 3e3 {
            ctx.outcome("metamorphic variant skipped (not representable in f32 statistics)", 1);
            continue;
        }
        let b: Arr3 = a.iter().map(|ch| ch.iter().map(|r| r.iter().map(|x| sc * x + sh).collect()).collect()).collect();
        ctx.evals(1);
        ctx.transitions(1);
        if let Ok((r2, _)) = impl_split(&b) {
            for k in 0..p {
                let stb = split_stats(&half_chains(&b, k), 0);
                let t = tol.max(4.0 * rhat_tol(&stb));
                if !rel_close(base[k] as f64, r2[k] as f64, t) {
                    ctx.violation(Violation::new(
                        "C11:affine",
                        format!("R-hat of parameter {k} changes under x -> {sc}*x + {sh}: {} vs {}", base[k], r2[k]),
                        case.clone(),
                    ));
                }
            }
        }
    }
    // chain permutations (all, for <= 4 chains; reversal + rotation beyond)
    let perms: Vec<Vec<usize>> = if c <= 4 { all_perms(c) } else { vec![(0..c).rev().collect(), (0..c).map(|i| (i + 1) % c).collect()] };
    for perm in perms {
        let b: Arr3 = perm.iter().map(|i| a[*i].clone()).collect();
        ctx.evals(1);
        ctx.transitions(1);
        if let Ok((r2, _)) = impl_split(&b) {
            for k in 0..p {
                if !rel_close(base[k] as f64, r2[k] as f64, tol) {
                    ctx.violation(Violation::new(
                        "C11:perm",
                        format!("R-hat of parameter {k} changes under chain permutation {perm:?}: {} vs {}", base[k], r2[k]),
                        case.clone(),
                    ));
                }
            }
        }
    }
    // edits of OTHER parameters leave parameter 0 untouched
    if p >= 2 {
        let mut b = a.clone();
        for ch in b.iter_mut() {
            for (j, r) in ch.iter_mut().enumerate() {
                for k in 1..p {
                    r[k] = (j as f32 * 0.37 + k as f32).sin() * 50.0;
                }
            }
        }
        ctx.evals(1);
        ctx.transitions(1);
        if let Ok((r2, _)) = impl_split(&b) {
            if !rel_close(base[0] as f64, r2[0] as f64, 1e-6) {
                ctx.violation(Violation::new(
                    "C11:other-param",
                    format!("R-hat of parameter 0 changes when other parameters are edited: {} vs {}", base[0], r2[0]),
                    case.clone(),
                ));
            }
        }
    }
    // separation ladder: shift chain 0 by growing offsets => strictly increasing R-hat
    if n >= 4 && c >= 2 {
        let mut prev = f64::NEG_INFINITY;
        let mut vals = vec![];
        for s in [0.0f32, 1.0, 10.0, 1e3, 1e6] {
            let mut b = a.clone();
            let sd = st0.w.sqrt() as f32;
            // move chain 0 AWAY from the others (direction = side on which it already lies)
            // (computed on the half-chains the diagnostic actually uses: an odd middle draw is dropped)
            let hc = half_chains(a, 0);
            let hm: Vec<f64> = hc.iter().map(|h| h.iter().sum::<f64>() / h.len() as f64).collect();
            let m0 = (hm[0] + hm[c]) / 2.0;
            let mo = (hm.iter().sum::<f64>() - hm[0] - hm[c]) / (2 * c - 2) as f64;
            let dir = if m0 < mo { -1.0f32 } else { 1.0 };
            for r in b[0].iter_mut() {
                r[0] += dir * s * sd;
            }
            ctx.evals(1);
            ctx.transitions(1);
            let Ok((r2, _)) = impl_split(&b) else { return };
            vals.push(r2[0] as f64);
            if !(r2[0] as f64 > prev) && s > 0.0 {
                ctx.violation(Violation::new(
                    "C11:ladder",
                    format!("R-hat does not grow when one chain is moved away: offsets (0,1,10,1e3,1e6)*sd give {vals:?}"),
                    case.clone(),
                ));
                break;
            }
            prev = r2[0] as f64;
        }
        if let Some(last) = vals.last() {
            if vals.len() == 5 && *last < 1e3 {
                ctx.violation(Violation::new(
                    "C11:ladder",
                    format!("R-hat stays bounded ({last}) although one chain is 1e6 sd away: {vals:?}"),
                    case.clone(),
                ));
            }
        }
    }
}

pub fn all_perms(n: usize) -> Vec<Vec<usize>> {
    fn rec(cur: &mut Vec<usize>, used: &mut Vec<bool>, n: usize, out: &mut Vec<Vec<usize>>) {
        if cur.len() == n {
            out.push(cur.clone());
            return;
        }
        for i in 0..n {
            if !used[i] {
                used[i] = true;
                cur.push(i);
                rec(cur, used, n, out);
                cur.pop();
                used[i] = false;
            }
        }
    }
    let mut out = vec![];
    rec(&mut vec![], &mut vec![false; n], n, &mut out);
    out
}

/// basic_stats on one vector (case = {"summary": [...]})
fn check_basic(ctx: &Ctx, v: &[f32], case: &Value) {
    ctx.evals(1);
    ctx.transitions(1);
    let arr = Array1::from_vec(v.to_vec());
    let r = catch(|| basic_stats("x", arr));
    let has_nan = v.iter().any(|x| x.is_nan());
    match r {
        Err(m) => ctx.violation(Violation::new(
            if has_nan { "C11:summary-panic-nan" } else { "C11:summary-panic" },
            format!("basic_stats panicked on {} values ({} NaN): {m}", v.len(), v.iter().filter(|x| x.is_nan()).count()),
            case.clone(),
        )),
        Ok(bs) => {
            if has_nan {
                ctx.outcome("summary-with-nan-returned", 1);
                return;
            }
            ctx.outcome("summary-finite", 1);
            let f: Vec<f64> = v.iter().map(|x| *x as f64).collect();
            let s = sorted(&f);
            let n = s.len();
            let mut bad = vec![];
            if bs.min as f64 != s[0] {
                bad.push(format!("min {} != {}", bs.min, s[0]));
            }
            if bs.max as f64 != s[n - 1] {
                bad.push(format!("max {} != {}", bs.max, s[n - 1]));
            }
            let m = mean(&f);
            let scale = s[n - 1].abs().max(s[0].abs()).max(1e-30);
            if (bs.mean as f64 - m).abs() > 1e-5 * scale {
                bad.push(format!("mean {} != {}", bs.mean, m));
            }
            if n >= 2 {
                let sd = std1(&f);
                if (bs.std as f64 - sd).abs() > 1e-4 * scale.max(sd) {
                    bad.push(format!("std {} != {} (ddof 1)", bs.std, sd));
                }
            }
            let mids: Vec<f64> = if n % 2 == 1 { vec![s[n / 2]] } else { vec![s[n / 2 - 1], s[n / 2]] };
            if !mids.iter().any(|x| *x == bs.median as f64) {
                bad.push(format!("median {} not a middle order statistic {:?}", bs.median, mids));
            }
            if !bad.is_empty() {
                ctx.violation(Violation::new("C11:summary-value", format!("basic_stats({v:?}): {}", bad.join("; ")), case.clone()));
            }
        }
    }
}

fn summary_cases(ctx: &Ctx) {
    // (a) all finite vectors over the alphabet, length 1..=7 (quick: ..=6)
    let maxlen = ctx.tier.pick(6, 8);
    let vals = [-1.0f32, 0.0, 1.0, 2.5];
    let jobs: Vec<(usize, u64)> = (1..=maxlen).flat_map(|l| (0..(1u64 << (2 * l))).map(move |i| (l, i))).collect();
    jobs.par_iter().for_each(|(l, i)| {
        let v: Vec<f32> = (0..*l).map(|k| vals[((i >> (2 * k)) & 3) as usize]).collect();
        let case = json!({"summary": jf32s(&v)});
        check_basic(ctx, &v, &case);
        ctx.state(hash_f32s("sum", &v));
    });
    // (b) NaN at every subset of positions, length <= 8 (ramp values)
    for l in 1..=8usize {
        for mask in 1u32..(1 << l) {
            let v: Vec<f32> = (0..l).map(|k| if mask >> k & 1 == 1 { f32::NAN } else { (k as f32 * 1.7).sin() * 3.0 + 1.0 }).collect();
            let case = json!({"summary": jf32s(&v)});
            check_basic(ctx, &v, &case);
        }
    }
    // (c) longer vectors (past the small-sort threshold), NaN at periodic positions
    let maxl = ctx.tier.pick(64, 256);
    for l in 9..=maxl {
        for (period, off) in [(2usize, 0usize), (2, 1), (3, 0), (3, 2), (5, 1), (7, 3), (11, 5), (l + 1, 0)] {
            let v: Vec<f32> = (0..l)
                .map(|k| if period <= l && k % period == off { f32::NAN } else { ((k * 7919) % 101) as f32 * 0.25 - 7.0 })
                .collect();
            let case = json!({"summary": jf32s(&v)});
            check_basic(ctx, &v, &case);
        }
    }
}

/// RunStats::from agrees with summary of the per-parameter diagnostics of the same array.
fn check_runstats(ctx: &Ctx, a: &Arr3, case: &Value) {
    ctx.evals(1);
    ctx.transitions(1);
    let lay = LAYOUT.with(|l| l.get());
    // non-standard layouts may legitimately change the summation order inside the diagnostics by an f32 rounding
    let eq = |got: f32, want: f64, scale: f64| if lay == 0 { got as f64 == want } else { (got as f64 - want).abs() <= 1e-4 * scale };
    let rs = match catch(|| view_in_layout(a, |v| RunStats::from(v))) {
        Ok(r) => r,
        Err(m) => {
            ctx.violation(Violation::new("C11:runstats-panic", format!("RunStats::from panicked: {m}"), case.clone()));
            return;
        }
    };
    let Ok((rh, es)) = impl_split(a) else { return };
    for (name, vals, bs) in [("rhat", &rh, &rs.rhat), ("ess", &es, &rs.ess)] {
        if vals.iter().any(|x| !x.is_finite()) {
            ctx.outcome("runstats-nonfinite-diagnostic", 1);
            continue;
        }
        let f: Vec<f64> = vals.iter().map(|x| *x as f64).collect();
        let s = sorted(&f);
        let n = s.len();
        let scale = s[n - 1].abs().max(s[0].abs()).max(1e-30);
        let mids: Vec<f64> = if n % 2 == 1 { vec![s[n / 2]] } else { vec![s[n / 2 - 1], s[n / 2]] };
        let mut bad = vec![];
        if !eq(bs.min, s[0], scale) {
            bad.push(format!("min {} != {}", bs.min, s[0]));
        }
        if !eq(bs.max, s[n - 1], scale) {
            bad.push(format!("max {} != {}", bs.max, s[n - 1]));
        }
        if (bs.mean as f64 - mean(&f)).abs() > 1e-5 * scale {
            bad.push(format!("mean {} != {}", bs.mean, mean(&f)));
        }
        if n >= 2 && (bs.std as f64 - std1(&f)).abs() > 1e-4 * scale.max(std1(&f)) {
            bad.push(format!("std {} != {}", bs.std, std1(&f)));
        }
        if !mids.iter().any(|x| eq(bs.median, *x, scale)) {
            bad.push(format!("median {} not in {:?}", bs.median, mids));
        }
        if !bad.is_empty() {
            ctx.violation(Violation::new("C11:runstats-value", format!("RunStats.{name} over {vals:?}: {}", bad.join("; ")), case.clone()));
        }
        ctx.outcome("runstats-checked", 1);
    }
}

pub fn run(ctx: &Ctx) {
    let conv = Conv::new();
    ctx.rule("(i) ALL arrays over {-1,0,1,2} for the listed small shapes (exhaustive), (ii) fixed structured families (iid, AR(1), trending, bimodal, switching, far-apart, constant-parameter; listed shapes up to 16 chains x 5000 draws x 8 params; enumerated, NOT exhaustive over the reals), (iii) metamorphic variants (every family member <= 1023 draws and every array of the small exhaustive shapes again as Fortran-ordered array, two axis-permuted views and a reversed strided view; affine, all chain permutations <=4 chains, other-parameter edits, separation ladder), (iv) run-summary vectors (all finite vectors over a 4-letter alphabet up to the stated length; NaN at every subset of positions up to length 8; periodic NaNs up to the stated length). non-trivial = W>0 for the compared parameter; distinct by input hash. states = distinct input arrays/vectors, transitions = implementation evaluations");
    // (i) exhaustive small arrays
    let shapes = exhaustive_shapes(ctx.tier.thorough());
    ctx.extra("exhaustive_shapes", json!(shapes.iter().map(|s| format!("{}x{}x{} ({} arrays)", s.0, s.1, s.2, n_arrays(*s))).collect::<Vec<_>>()));
    for shape in shapes.iter() {
        let total = n_arrays(*shape);
        let chunk = 4096u64;
        let nchunks = total.div_ceil(chunk);
        (0..nchunks).into_par_iter().for_each(|ci| {
            let mut hs = Vec::with_capacity(chunk as usize);
            let mut nontrivial = vec![];
            for idx in ci * chunk..((ci + 1) * chunk).min(total) {
                let a = decode(*shape, idx);
                let case = json!({"exhaustive": {"shape": [shape.0, shape.1, shape.2], "index": idx}});
                let h = hash_of(&(shape.0, shape.1, shape.2, idx));
                hs.push(h);
                if check_array(ctx, &conv, &a, &case).is_some() && split_stats(&half_chains(&a, 0), 0).w > 0.0 {
                    nontrivial.push(h);
                }
                if total <= 65536 || ctx.tier.thorough() && total <= (1 << 20) {
                    for l in 1..LAYOUT_NAMES.len() as u8 {
                        with_layout(l, || check_array(ctx, &conv, &a, &case_with_layout(&case, l)));
                    }
                }
            }
            ctx.states_bulk(hs);
            ctx.distinct_bulk(nontrivial);
        });
    }
    ctx.sample(json!({"exhaustive_member": {"shape": [2, 4, 1], "index": 12345, "array": decode((2, 4, 1), 12345)}}));
    // (ii) families + (iii) metamorphic
    let specs = family_specs(ctx.tier.thorough(), false);
    ctx.extra("family_members", json!(specs.len()));
    specs.par_iter().for_each(|sp| {
        let a = sp.build();
        let case = json!({"family": sp.to_json()});
        let h = hash_str(&sp.name());
        ctx.state(h);
        if let Some(rh) = check_array(ctx, &conv, &a, &case) {
            ctx.distinct(h);
            if ctx.n_samples() < 6 {
                ctx.sample(json!({"family_member": sp.name(), "rhat_impl": jf32s(&rh)}));
            }
        }
        if sp.draws <= 1023 {
            metamorphic(ctx, &a, &case);
        }
        if sp.params >= 2 || sp.seed % 5 == 0 {
            check_runstats(ctx, &a, &case);
        }
        // the same logical array handed over in every other memory layout an ArrayView3 can have
        if sp.draws <= 1023 {
            for l in 1..LAYOUT_NAMES.len() as u8 {
                let lc = case_with_layout(&case, l);
                with_layout(l, || {
                    check_array(ctx, &conv, &a, &lc);
                    if sp.params >= 2 || sp.seed % 5 == 0 {
                        check_runstats(ctx, &a, &lc);
                    }
                });
                ctx.outcome("layout-variant-checked", 1);
            }
        }
    });
    // wide arrays (many parameters, some constant => NaN diagnostics) through the run summary
    for p in [9usize, 21, 33, 64] {
        for nconst in [0usize, 1, p / 2] {
            let mut sp = FamSpec { kind: "iid", chains: 2, draws: 8, params: p, phi: 0.0, loc: 0.0, scale: 1.0, seed: 77 + p as u64 };
            sp.seed += nconst as u64;
            let mut a = sp.build();
            for ch in a.iter_mut() {
                for r in ch.iter_mut() {
                    for k in 0..nconst {
                        r[(k * 2) % p] = 3.0;
                    }
                }
            }
            let case = json!({"wide": {"params": p, "nconst": nconst, "seed": sp.seed}});
            check_runstats(ctx, &a, &case);
        }
    }
    // (iv) summaries
    summary_cases(ctx);
    conv.settle(ctx);
    // vacuity guards
    if ctx.outcome_count("value-match") + ctx.outcome_count("value-mismatch(both conventions)") < 1000 {
        ctx.machinery_error("vacuity guard: fewer than 1000 R-hat comparisons were made");
    }
    ctx.assume("large shapes are covered by fixed enumerated families, not exhaustively; values are f32 (the type the diagnostics accept), the reference evaluates the same f32 data in f64");
    ctx.assume("tolerance 3e-4 + 40*eps32*cond relative (cond = max |half mean| / sqrt(W)): the diagnostics are computed in f32");
}

pub fn check_case(ctx: &Ctx, case: &Value) {
    let l = case["layout"].as_u64().unwrap_or(0) as u8;
    with_layout(l, || check_case_inner(ctx, case))
}
fn check_case_inner(ctx: &Ctx, case: &Value) {
    let conv = Conv::new();
    if let Some(e) = case.get("exhaustive") {
        let sh = &e["shape"];
        let shape = (sh[0].as_u64().unwrap() as usize, sh[1].as_u64().unwrap() as usize, sh[2].as_u64().unwrap() as usize);
        let a = decode(shape, e["index"].as_u64().unwrap());
        check_array(ctx, &conv, &a, case);
        conv.settle(ctx);
    } else if let Some(f) = case.get("family") {
        if let Some(sp) = FamSpec::from_json(f) {
            let a = sp.build();
            check_array(ctx, &conv, &a, case);
            metamorphic(ctx, &a, case);
            check_runstats(ctx, &a, case);
            conv.settle(ctx);
        }
    } else if let Some(s) = case.get("summary") {
        let v: Vec<f32> = pfs(s).iter().map(|x| *x as f32).collect();
        check_basic(ctx, &v, case);
    } else if let Some(w) = case.get("wide") {
        let p = w["params"].as_u64().unwrap() as usize;
        let nconst = w["nconst"].as_u64().unwrap() as usize;
        let sp = FamSpec { kind: "iid", chains: 2, draws: 8, params: p, phi: 0.0, loc: 0.0, scale: 1.0, seed: w["seed"].as_u64().unwrap() };
        let mut a = sp.build();
        for ch in a.iter_mut() {
            for r in ch.iter_mut() {
                for k in 0..nconst {
                    r[(k * 2) % p] = 3.0;
                }
            }
        }
        check_runstats(ctx, &a, case);
    }
}
