//! C17 — CSV / Arrow / Parquet export round trip (values, labels, schema), also for empty arrays; error paths.
use crate::common::*;
use arrow::array::{Array, Float64Array, UInt32Array};
use arrow::datatypes::DataType;
use burn::backend::NdArray;
use burn::prelude::*;
use mini_mcmc::io::arrow::save_arrow;
use mini_mcmc::io::csv::{save_csv, save_csv_tensor};
use mini_mcmc::io::parquet::{save_parquet, save_parquet_tensor};
use ndarray::Array3;
use rayon::prelude::*;
use serde_json::{json, Value};
use std::fs::File;

/// What a standard reader sees in a file.
struct Table {
    names: Vec<String>,
    /// label columns (first two) as integers
    labels: [Vec<u64>; 2],
    /// dim_j columns, widened to f64 (column-major)
    dims: Vec<Vec<f64>>,
    types_ok: bool,
}

fn read_csv(path: &str, parse_f32: bool) -> Result<Table, String> {
    let mut rdr = csv::ReaderBuilder::new().has_headers(true).from_path(path).map_err(|e| e.to_string())?;
    let names: Vec<String> = rdr.headers().map_err(|e| e.to_string())?.iter().map(|s| s.to_string()).collect();
    let nd = names.len().saturating_sub(2);
    let mut t = Table { names, labels: [vec![], vec![]], dims: vec![vec![]; nd], types_ok: true };
    for rec in rdr.records() {
        let rec = rec.map_err(|e| e.to_string())?;
        if rec.len() != nd + 2 {
            return Err(format!("row with {} fields under a header of {}", rec.len(), nd + 2));
        }
        for k in 0..2 {
            t.labels[k].push(rec[k].parse::<u64>().map_err(|e| format!("label {:?}: {e}", &rec[k]))?);
        }
        for j in 0..nd {
            let s = &rec[j + 2];
            let v = if parse_f32 { s.parse::<f32>().map(|x| x as f64).map_err(|e| format!("value {s:?}: {e}"))? } else { s.parse::<f64>().map_err(|e| format!("value {s:?}: {e}"))? };
            t.dims[j].push(v);
        }
    }
    Ok(t)
}

fn table_from_batches(schema: arrow::datatypes::SchemaRef, batches: Vec<arrow::record_batch::RecordBatch>) -> Result<Table, String> {
    let names: Vec<String> = schema.fields().iter().map(|f| f.name().clone()).collect();
    let nd = names.len().saturating_sub(2);
    let mut types_ok = names.len() >= 2;
    for (i, f) in schema.fields().iter().enumerate() {
        let want = if i < 2 { DataType::UInt32 } else { DataType::Float64 };
        if *f.data_type() != want {
            types_ok = false;
        }
    }
    let mut t = Table { names, labels: [vec![], vec![]], dims: vec![vec![]; nd], types_ok };
    if !types_ok {
        return Ok(t);
    }
    for b in batches {
        for k in 0..2 {
            let col = b.column(k).as_any().downcast_ref::<UInt32Array>().ok_or("label column is not UInt32")?;
            if col.null_count() > 0 {
                return Err("null label".into());
            }
            t.labels[k].extend(col.values().iter().map(|x| *x as u64));
        }
        for j in 0..nd {
            let col = b.column(j + 2).as_any().downcast_ref::<Float64Array>().ok_or("dim column is not Float64")?;
            if col.null_count() > 0 {
                return Err("null value".into());
            }
            t.dims[j].extend(col.values().iter().cloned());
        }
    }
    Ok(t)
}

fn read_arrow(path: &str) -> Result<Table, String> {
    let f = File::open(path).map_err(|e| e.to_string())?;
    let rdr = arrow::ipc::reader::FileReader::try_new(f, None).map_err(|e| e.to_string())?;
    let schema = rdr.schema();
    let mut batches = vec![];
    for b in rdr {
        batches.push(b.map_err(|e| e.to_string())?);
    }
    table_from_batches(schema, batches)
}

fn read_parquet(path: &str) -> Result<Table, String> {
    let f = File::open(path).map_err(|e| e.to_string())?;
    let builder = parquet::arrow::arrow_reader::ParquetRecordBatchReaderBuilder::try_new(f).map_err(|e| e.to_string())?;
    let schema = builder.schema().clone();
    let rdr = builder.build().map_err(|e| e.to_string())?;
    let mut batches = vec![];
    for b in rdr {
        batches.push(b.map_err(|e| e.to_string())?);
    }
    table_from_batches(schema, batches)
}

fn same(a: f64, b: f64) -> bool {
    (a.is_nan() && b.is_nan()) || a.to_bits() == b.to_bits() || (a == b && a != 0.0)
}
fn same_csv(a: f64, b: f64) -> bool {
    // CSV: "parses back to the same number" (== ; NaN <-> NaN)
    (a.is_nan() && b.is_nan()) || a == b
}

/// Compare a read-back table with the expected content.
/// `outer_first`: label column 0 is the OUTER axis (axis 0 of the stored array), column 1 the inner.
#[allow(clippy::too_many_arguments)]
fn compare(ctx: &Ctx, fmt: &str, t: &Table, label_names: [&str; 2], shape: (usize, usize, usize), val: &dyn Fn(usize, usize, usize) -> f64, csv: bool, case: &Value) {
    let (a0, a1, nd) = shape;
    let mk = |key: &str, what: String| Violation::new(format!("C17:{fmt}:{key}"), what, case.clone());
    let mut want_names = vec![label_names[0].to_string(), label_names[1].to_string()];
    want_names.extend((0..nd).map(|j| format!("dim_{j}")));
    if t.names != want_names {
        ctx.violation(mk("header", format!("header/schema {:?}, documented {:?}", t.names, want_names)));
        return;
    }
    if !t.types_ok {
        ctx.violation(mk("schema-types", "column types are not (UInt32, UInt32, Float64...)".to_string()));
        return;
    }
    let rows = a0 * a1;
    if t.labels[0].len() != rows || t.dims.iter().any(|c| c.len() != rows) {
        ctx.violation(mk("row-count", format!("{} rows read back, {} cells stored (shape {shape:?})", t.labels[0].len(), rows)));
        return;
    }
    // one row per cell: rows must be exactly the set of (i0, i1), each with its own values
    let mut seen = vec![false; rows];
    for r in 0..rows {
        let (i0, i1) = (t.labels[0][r] as usize, t.labels[1][r] as usize);
        if i0 >= a0 || i1 >= a1 {
            ctx.violation(mk("label-range", format!("row {r} labelled ({i0},{i1}) outside shape {shape:?}")));
            return;
        }
        if seen[i0 * a1 + i1] {
            ctx.violation(mk("label-duplicate", format!("cell ({i0},{i1}) appears twice")));
            return;
        }
        seen[i0 * a1 + i1] = true;
        for j in 0..nd {
            let want = val(i0, i1, j);
            let got = t.dims[j][r];
            let ok = if csv { same_csv(got, want) } else { same(got, want) };
            if !ok {
                ctx.violation(mk("value", format!("row labelled ({},{})=({i0},{i1}) column dim_{j}: read {got}, stored {want}", label_names[0], label_names[1])));
                return;
            }
        }
    }
    ctx.outcome(&format!("{fmt}:roundtrip-ok"), 1);
}

fn coded(c: usize, o: usize, d: usize) -> f64 {
    (c * 10000 + o * 100 + d) as f64 + 0.25
}

fn scratch() -> String {
    let dir = format!("{}/.scratch/c17-{}", std::env::var("VERIF_DIR").unwrap_or_else(|_| "/verif".into()), std::process::id());
    std::fs::create_dir_all(&dir).ok();
    dir
}

fn run_save(ctx: &Ctx, fmt: &str, case: &Value, f: impl FnOnce() -> Result<(), String>) -> Option<bool> {
    ctx.evals(1);
    ctx.transitions(1);
    match catch(f) {
        Ok(Ok(())) => Some(true),
        Ok(Err(_)) => {
            ctx.outcome(&format!("{fmt}:returned-error"), 1);
            Some(false)
        }
        Err(m) => {
            ctx.violation(Violation::new(format!("C17:{fmt}:panic"), format!("save panicked: {m}"), case.clone()));
            None
        }
    }
}

/// All entry points for one shape with position-coded (or special) values.
fn check_shape(ctx: &Ctx, shape: (usize, usize, usize), special: Option<(usize, f64)>) {
    let (c, o, d) = shape;
    let dir = scratch();
    let tag = format!("{c}x{o}x{d}-{}", special.map(|s| format!("s{}_{:x}", s.0, s.1.to_bits())).unwrap_or_default());
    let cell = |i: usize, j: usize, k: usize| -> f64 {
        if let Some((pos, v)) = special {
            if (i * o + j) * d + k == pos {
                return v;
            }
        }
        coded(i, j, k)
    };
    let case = json!({"shape": [c, o, d], "special": special.map(|s| json!({"pos": s.0, "bits": format!("{:016x}", s.1.to_bits())}))});
    ctx.state(hash_str(&case.to_string()));
    // ---- ndarray entry points, element types
    let arr64 = Array3::<f64>::from_shape_fn((c, o, d), |(i, j, k)| cell(i, j, k));
    let arr32 = Array3::<f32>::from_shape_fn((c, o, d), |(i, j, k)| cell(i, j, k) as f32);
    let v64 = |i: usize, j: usize, k: usize| cell(i, j, k);
    let v32 = |i: usize, j: usize, k: usize| (cell(i, j, k) as f32) as f64;
    // CSV
    let p = format!("{dir}/{tag}-f64.csv");
    if run_save(ctx, "save_csv<f64>", &case, || save_csv(&arr64, &p).map_err(|e| e.to_string())) == Some(true) {
        match read_csv(&p, false) {
            Ok(t) => compare(ctx, "save_csv<f64>", &t, ["chain", "observation"], shape, &v64, true, &case),
            Err(e) => ctx.violation(Violation::new("C17:save_csv<f64>:unreadable", format!("standard CSV reader fails: {e}"), case.clone())),
        }
    }
    std::fs::remove_file(&p).ok();
    let p = format!("{dir}/{tag}-f32.csv");
    if run_save(ctx, "save_csv<f32>", &case, || save_csv(&arr32, &p).map_err(|e| e.to_string())) == Some(true) {
        match read_csv(&p, true) {
            Ok(t) => compare(ctx, "save_csv<f32>", &t, ["chain", "observation"], shape, &v32, true, &case),
            Err(e) => ctx.violation(Violation::new("C17:save_csv<f32>:unreadable", format!("standard CSV reader fails: {e}"), case.clone())),
        }
    }
    std::fs::remove_file(&p).ok();
    if special.is_none() {
        let arri = Array3::<i32>::from_shape_fn((c, o, d), |(i, j, k)| (i * 10000 + j * 100 + k) as i32 - 7);
        let vi = |i: usize, j: usize, k: usize| ((i * 10000 + j * 100 + k) as i32 - 7) as f64;
        let p = format!("{dir}/{tag}-i32.csv");
        if run_save(ctx, "save_csv<i32>", &case, || save_csv(&arri, &p).map_err(|e| e.to_string())) == Some(true) {
            match read_csv(&p, false) {
                Ok(t) => compare(ctx, "save_csv<i32>", &t, ["chain", "observation"], shape, &vi, true, &case),
                Err(e) => ctx.violation(Violation::new("C17:save_csv<i32>:unreadable", e, case.clone())),
            }
        }
        std::fs::remove_file(&p).ok();
        let arru = Array3::<usize>::from_shape_fn((c, o, d), |(i, j, k)| i * 10000 + j * 100 + k);
        let vu = |i: usize, j: usize, k: usize| (i * 10000 + j * 100 + k) as f64;
        let p = format!("{dir}/{tag}-usize.csv");
        if run_save(ctx, "save_csv<usize>", &case, || save_csv(&arru, &p).map_err(|e| e.to_string())) == Some(true) {
            match read_csv(&p, false) {
                Ok(t) => compare(ctx, "save_csv<usize>", &t, ["chain", "observation"], shape, &vu, true, &case),
                Err(e) => ctx.violation(Violation::new("C17:save_csv<usize>:unreadable", e, case.clone())),
            }
        }
        std::fs::remove_file(&p).ok();
        // arrow / parquet with i32
        let p = format!("{dir}/{tag}-i32.arrow");
        if run_save(ctx, "save_arrow<i32>", &case, || save_arrow(&arri, &p).map_err(|e| e.to_string())) == Some(true) {
            match read_arrow(&p) {
                Ok(t) => compare(ctx, "save_arrow<i32>", &t, ["chain", "observation"], shape, &vi, false, &case),
                Err(e) => ctx.violation(Violation::new("C17:save_arrow<i32>:unreadable", e, case.clone())),
            }
        }
        std::fs::remove_file(&p).ok();
        let p = format!("{dir}/{tag}-i32.parquet");
        if run_save(ctx, "save_parquet<i32>", &case, || save_parquet(&arri, &p).map_err(|e| e.to_string())) == Some(true) {
            match read_parquet(&p) {
                Ok(t) => compare(ctx, "save_parquet<i32>", &t, ["chain", "observation"], shape, &vi, false, &case),
                Err(e) => ctx.violation(Violation::new("C17:save_parquet<i32>:unreadable", e, case.clone())),
            }
        }
        std::fs::remove_file(&p).ok();
    }
    // Arrow
    for (name, is32) in [("save_arrow<f64>", false), ("save_arrow<f32>", true)] {
        let p = format!("{dir}/{tag}-{is32}.arrow");
        let r = if is32 { run_save(ctx, name, &case, || save_arrow(&arr32, &p).map_err(|e| e.to_string())) } else { run_save(ctx, name, &case, || save_arrow(&arr64, &p).map_err(|e| e.to_string())) };
        if r == Some(true) {
            match read_arrow(&p) {
                Ok(t) => compare(ctx, name, &t, ["chain", "observation"], shape, if is32 { &v32 } else { &v64 }, false, &case),
                Err(e) => ctx.violation(Violation::new(format!("C17:{name}:unreadable"), format!("Arrow IPC reader fails: {e}"), case.clone())),
            }
        }
        std::fs::remove_file(&p).ok();
    }
    // Parquet
    for (name, is32) in [("save_parquet<f64>", false), ("save_parquet<f32>", true)] {
        let p = format!("{dir}/{tag}-{is32}.parquet");
        let r = if is32 { run_save(ctx, name, &case, || save_parquet(&arr32, &p).map_err(|e| e.to_string())) } else { run_save(ctx, name, &case, || save_parquet(&arr64, &p).map_err(|e| e.to_string())) };
        if r == Some(true) {
            match read_parquet(&p) {
                Ok(t) => compare(ctx, name, &t, ["chain", "observation"], shape, if is32 { &v32 } else { &v64 }, false, &case),
                Err(e) => ctx.violation(Violation::new(format!("C17:{name}:unreadable"), format!("Parquet reader fails: {e}"), case.clone())),
            }
        }
        std::fs::remove_file(&p).ok();
    }
    // ---- other memory layouts of the same logical array (column-major; axis-permuted view made owned)
    if special.is_none() && c * o * d > 0 {
        use ndarray::ShapeBuilder;
        let colmajor = Array3::<f64>::from_shape_fn((c, o, d).f(), |(i, j, k)| cell(i, j, k));
        let permuted = Array3::<f64>::from_shape_fn((o, c, d), |(j, i, k)| cell(i, j, k)).permuted_axes([1, 0, 2]);
        for (lname, arr) in [("column-major", &colmajor), ("permuted-axes", &permuted)] {
            let p = format!("{dir}/{tag}-{lname}.csv");
            if run_save(ctx, "save_csv<f64>(layout)", &case, || save_csv(arr, &p).map_err(|e| e.to_string())) == Some(true) {
                match read_csv(&p, false) {
                    Ok(t) => compare(ctx, &format!("save_csv<f64>({lname})"), &t, ["chain", "observation"], shape, &v64, true, &case),
                    Err(e) => ctx.violation(Violation::new("C17:save_csv(layout):unreadable", e, case.clone())),
                }
            }
            std::fs::remove_file(&p).ok();
            let p = format!("{dir}/{tag}-{lname}.arrow");
            if run_save(ctx, "save_arrow<f64>(layout)", &case, || save_arrow(arr, &p).map_err(|e| e.to_string())) == Some(true) {
                match read_arrow(&p) {
                    Ok(t) => compare(ctx, &format!("save_arrow<f64>({lname})"), &t, ["chain", "observation"], shape, &v64, false, &case),
                    Err(e) => ctx.violation(Violation::new("C17:save_arrow(layout):unreadable", e, case.clone())),
                }
            }
            std::fs::remove_file(&p).ok();
            let p = format!("{dir}/{tag}-{lname}.parquet");
            if run_save(ctx, "save_parquet<f64>(layout)", &case, || save_parquet(arr, &p).map_err(|e| e.to_string())) == Some(true) {
                match read_parquet(&p) {
                    Ok(t) => compare(ctx, &format!("save_parquet<f64>({lname})"), &t, ["chain", "observation"], shape, &v64, false, &case),
                    Err(e) => ctx.violation(Violation::new("C17:save_parquet(layout):unreadable", e, case.clone())),
                }
            }
            std::fs::remove_file(&p).ok();
        }
    }
    // ---- tensor entry points (f32 and f64 NdArray backends)
    let flat32: Vec<f32> = (0..c * o * d).map(|idx| cell(idx / (o * d), (idx / d.max(1)) % o.max(1), idx % d.max(1)) as f32).collect();
    let dev = Default::default();
    match catch(|| Tensor::<NdArray<f32>, 3>::from_data(TensorData::new(flat32.clone(), [c, o, d]), &dev)) {
        Err(_) => ctx.outcome("tensor-shape-not-constructible(skipped)", 1),
        Ok(t) => {
            // save_csv_tensor: chain x observation x dim
            let p = format!("{dir}/{tag}-t.csv");
            if run_save(ctx, "save_csv_tensor", &case, || save_csv_tensor(t.clone(), &p).map_err(|e| e.to_string())) == Some(true) {
                match read_csv(&p, true) {
                    Ok(tb) => compare(ctx, "save_csv_tensor", &tb, ["chain", "observation"], shape, &v32, true, &case),
                    Err(e) => ctx.violation(Violation::new("C17:save_csv_tensor:unreadable", e, case.clone())),
                }
            }
            std::fs::remove_file(&p).ok();
            // save_parquet_tensor: documented axis order observation x chain x dim => labels (observation, chain)
            let p = format!("{dir}/{tag}-t.parquet");
            if run_save(ctx, "save_parquet_tensor<f32>", &case, || save_parquet_tensor::<NdArray<f32>, _, f32>(&t, &p).map_err(|e| e.to_string())) == Some(true) {
                match read_parquet(&p) {
                    Ok(tb) => compare(ctx, "save_parquet_tensor<f32>", &tb, ["observation", "chain"], shape, &v32, false, &case),
                    Err(e) => ctx.violation(Violation::new("C17:save_parquet_tensor<f32>:unreadable", e, case.clone())),
                }
            }
            std::fs::remove_file(&p).ok();
        }
    }
    let flat64: Vec<f64> = (0..c * o * d).map(|idx| cell(idx / (o * d), (idx / d.max(1)) % o.max(1), idx % d.max(1))).collect();
    let dev64 = Default::default();
    if let Ok(t) = catch(|| Tensor::<NdArray<f64>, 3>::from_data(TensorData::new(flat64.clone(), [c, o, d]), &dev64)) {
        let p = format!("{dir}/{tag}-t64.parquet");
        if run_save(ctx, "save_parquet_tensor<f64>", &case, || save_parquet_tensor::<NdArray<f64>, _, f64>(&t, &p).map_err(|e| e.to_string())) == Some(true) {
            match read_parquet(&p) {
                Ok(tb) => compare(ctx, "save_parquet_tensor<f64>", &tb, ["observation", "chain"], shape, &v64, false, &case),
                Err(e) => ctx.violation(Violation::new("C17:save_parquet_tensor<f64>:unreadable", e, case.clone())),
            }
        }
        std::fs::remove_file(&p).ok();
        // an f64 tensor through the f32-only CSV entry point must either fail cleanly or round-trip
        let p = format!("{dir}/{tag}-t64.csv");
        if run_save(ctx, "save_csv_tensor(f64 backend)", &case, || save_csv_tensor(t.clone(), &p).map_err(|e| e.to_string())) == Some(true) {
            match read_csv(&p, false) {
                Ok(tb) => compare(ctx, "save_csv_tensor(f64 backend)", &tb, ["chain", "observation"], shape, &v64, true, &case),
                Err(e) => ctx.violation(Violation::new("C17:save_csv_tensor(f64 backend):unreadable", e, case.clone())),
            }
        }
        std::fs::remove_file(&p).ok();
    }
    if special.is_none() {
        ctx.distinct(hash_str(&case.to_string()));
        if c == 2 && o == 3 && d == 2 {
            ctx.sample_tagged("coded shape through all entry points", || json!({"input": case.clone(), "cell(1,2,0)": coded(1, 2, 0)}));
        }
    } else {
        ctx.sample_tagged("special value in one cell", || case.clone());
    }
}

fn error_paths(ctx: &Ctx) {
    let dir = scratch();
    let arr = Array3::<f64>::from_shape_fn((2, 3, 2), |(i, j, k)| coded(i, j, k));
    let t = Tensor::<NdArray<f32>, 3>::from_data(TensorData::new((0..12).map(|x| x as f32).collect::<Vec<_>>(), [2, 3, 2]), &Default::default());
    let mut targets = vec![("missing-directory", format!("{dir}/no/such/dir/out.bin")), ("path-is-a-directory", dir.clone()), ("empty-path", String::new())];
    // A destination that opens fine while every write fails (device full): a small payload only fails at the final
    // flush. The code under test never gets the system's /dev/full itself: a change that stages and RENAMES over its
    // destination replaced that node by a regular file for the rest of the session (seeded C17-8 did, DESIGN §9). The
    // harness makes its own node (same device numbers 1:7) inside its scratch directory, verifies that it is a
    // character device on which a write fails with ENOSPC, and skips the case otherwise.
    let private_full = format!("{dir}/full-device");
    let _ = std::fs::remove_file(&private_full);
    let made = std::process::Command::new("mknod").args(["-m", "666", &private_full, "c", "1", "7"]).stderr(std::process::Stdio::null()).status().map(|s| s.success()).unwrap_or(false);
    let usable = made && {
        use std::io::Write;
        use std::os::unix::fs::FileTypeExt;
        std::fs::metadata(&private_full).map(|m| m.file_type().is_char_device()).unwrap_or(false)
            && std::fs::OpenOptions::new().write(true).open(&private_full).map(|mut f| f.write_all(b"x").and_then(|_| f.flush()).is_err()).unwrap_or(false)
    };
    if usable {
        targets.push(("device-full", private_full.clone()));
    } else {
        ctx.outcome("error-path: no usable full-device node (mknod 1:7 not permitted here; case skipped)", 1);
    }
    for (what, path) in targets.iter() {
        let case = json!({"error_path": what, "path": path});
        let mut chk = |name: &str, r: Result<Result<(), String>, String>| {
            ctx.evals(1);
            ctx.transitions(1);
            match r {
                Err(m) => ctx.violation(Violation::new(format!("C17:{name}:panic-on-error-path"), format!("{name} panicked on {what}: {m}"), case.clone())),
                Ok(Ok(())) => ctx.violation(Violation::new(format!("C17:{name}:success-on-unwritable"), format!("{name} reported success for {what} ({path:?})"), case.clone())),
                Ok(Err(_)) => ctx.outcome("error-path:Err", 1),
            }
        };
        chk("save_csv", catch(|| save_csv(&arr, path).map_err(|e| e.to_string())));
        chk("save_arrow", catch(|| save_arrow(&arr, path).map_err(|e| e.to_string())));
        chk("save_parquet", catch(|| save_parquet(&arr, path).map_err(|e| e.to_string())));
        chk("save_csv_tensor", catch(|| save_csv_tensor(t.clone(), path).map_err(|e| e.to_string())));
        chk("save_parquet_tensor", catch(|| save_parquet_tensor::<NdArray<f32>, _, f32>(&t, path).map_err(|e| e.to_string())));
    }
}

/// Histories of two saves to the SAME path (larger then smaller export, and the reverse): the file must hold
/// exactly the second export.
fn overwrite_histories(ctx: &Ctx) {
    let dir = scratch();
    let shapes = [((4usize, 9usize, 3usize), (1usize, 2usize, 3usize)), ((1, 2, 3), (4, 9, 3)), ((3, 5, 2), (3, 5, 1)), ((2, 2, 2), (0, 2, 2))];
    for (first, second) in shapes {
        let mkarr = |s: (usize, usize, usize), off: f64| Array3::<f64>::from_shape_fn(s, |(i, j, k)| coded(i, j, k) + off);
        let (a1, a2) = (mkarr(first, 0.0), mkarr(second, 0.5));
        let v2 = |i: usize, j: usize, k: usize| coded(i, j, k) + 0.5;
        let v2f = |i: usize, j: usize, k: usize| ((coded(i, j, k) + 0.5) as f32) as f64;
        let case = json!({"overwrite": {"first": [first.0, first.1, first.2], "second": [second.0, second.1, second.2]}});
        ctx.state(hash_str(&case.to_string()));
        let mkt = |s: (usize, usize, usize), off: f64| {
            let flat: Vec<f32> = (0..s.0 * s.1 * s.2).map(|idx| (coded(idx / (s.1 * s.2).max(1), (idx / s.2.max(1)) % s.1.max(1), idx % s.2.max(1)) + off) as f32).collect();
            Tensor::<NdArray<f32>, 3>::from_data(TensorData::new(flat, [s.0, s.1, s.2]), &Default::default())
        };
        // csv
        let p = format!("{dir}/ow-{}-{}.csv", first.0, second.0);
        if run_save(ctx, "save_csv(overwrite)", &case, || save_csv(&a1, &p).and_then(|_| save_csv(&a2, &p)).map_err(|e| e.to_string())) == Some(true) {
            match read_csv(&p, false) {
                Ok(t) => compare(ctx, "save_csv(second export over an existing file)", &t, ["chain", "observation"], second, &v2, true, &case),
                Err(e) => ctx.violation(Violation::new("C17:save_csv(overwrite):unreadable", format!("after saving a {first:?} export and then a {second:?} export to the same path the file is not a valid CSV: {e}"), case.clone())),
            }
        }
        std::fs::remove_file(&p).ok();
        if let (Ok(t1), Ok(t2)) = (catch(|| mkt(first, 0.0)), catch(|| mkt(second, 0.5))) {
            let p = format!("{dir}/ow-{}-{}-t.csv", first.0, second.0);
            if run_save(ctx, "save_csv_tensor(overwrite)", &case, || save_csv_tensor(t1.clone(), &p).and_then(|_| save_csv_tensor(t2.clone(), &p)).map_err(|e| e.to_string())) == Some(true) {
                match read_csv(&p, true) {
                    Ok(t) => compare(ctx, "save_csv_tensor(second export over an existing file)", &t, ["chain", "observation"], second, &v2f, true, &case),
                    Err(e) => ctx.violation(Violation::new("C17:save_csv_tensor(overwrite):unreadable", e, case.clone())),
                }
            }
            std::fs::remove_file(&p).ok();
            let p = format!("{dir}/ow-{}-{}-t.parquet", first.0, second.0);
            if run_save(ctx, "save_parquet_tensor(overwrite)", &case, || save_parquet_tensor::<NdArray<f32>, _, f32>(&t1, &p).and_then(|_| save_parquet_tensor::<NdArray<f32>, _, f32>(&t2, &p)).map_err(|e| e.to_string())) == Some(true) {
                match read_parquet(&p) {
                    Ok(t) => compare(ctx, "save_parquet_tensor(second export over an existing file)", &t, ["observation", "chain"], second, &v2f, false, &case),
                    Err(e) => ctx.violation(Violation::new("C17:save_parquet_tensor(overwrite):unreadable", e, case.clone())),
                }
            }
            std::fs::remove_file(&p).ok();
        }
        let p = format!("{dir}/ow-{}-{}.arrow", first.0, second.0);
        if run_save(ctx, "save_arrow(overwrite)", &case, || save_arrow(&a1, &p).and_then(|_| save_arrow(&a2, &p)).map_err(|e| e.to_string())) == Some(true) {
            match read_arrow(&p) {
                Ok(t) => compare(ctx, "save_arrow(second export over an existing file)", &t, ["chain", "observation"], second, &v2, false, &case),
                Err(e) => ctx.violation(Violation::new("C17:save_arrow(overwrite):unreadable", e, case.clone())),
            }
        }
        std::fs::remove_file(&p).ok();
        let p = format!("{dir}/ow-{}-{}.parquet", first.0, second.0);
        if run_save(ctx, "save_parquet(overwrite)", &case, || save_parquet(&a1, &p).and_then(|_| save_parquet(&a2, &p)).map_err(|e| e.to_string())) == Some(true) {
            match read_parquet(&p) {
                Ok(t) => compare(ctx, "save_parquet(second export over an existing file)", &t, ["chain", "observation"], second, &v2, false, &case),
                Err(e) => ctx.violation(Violation::new("C17:save_parquet(overwrite):unreadable", e, case.clone())),
            }
        }
        std::fs::remove_file(&p).ok();
    }
}

/// Histories "a save that fails, then a save that succeeds" on one thread, per entry point: the second file holds
/// exactly the second export (nothing of the failed call may leak into it), also when the two exports differ in width.
fn after_error_histories(ctx: &Ctx) {
    let dir = scratch();
    let bad = format!("{dir}/no/such/dir/out.bin");
    for (first, second) in [((3usize, 2usize, 2usize), (2usize, 3usize, 2usize)), ((2, 2, 3), (2, 3, 2)), ((1, 1, 2), (0, 3, 2))] {
        let mkarr = |s: (usize, usize, usize), off: f64| Array3::<f64>::from_shape_fn(s, |(i, j, k)| coded(i, j, k) + off);
        let (a1, a2) = (mkarr(first, 0.0), mkarr(second, 0.5));
        let v2 = |i: usize, j: usize, k: usize| coded(i, j, k) + 0.5;
        let v2f = |i: usize, j: usize, k: usize| ((coded(i, j, k) + 0.5) as f32) as f64;
        let mkt = |s: (usize, usize, usize), off: f64| {
            let flat: Vec<f32> = (0..s.0 * s.1 * s.2).map(|idx| (coded(idx / (s.1 * s.2).max(1), (idx / s.2.max(1)) % s.1.max(1), idx % s.2.max(1)) + off) as f32).collect();
            Tensor::<NdArray<f32>, 3>::from_data(TensorData::new(flat, [s.0, s.1, s.2]), &Default::default())
        };
        let case = json!({"after_error": {"failed_export": [first.0, first.1, first.2], "then": [second.0, second.1, second.2]}});
        ctx.state(hash_str(&case.to_string()));
        let p = format!("{dir}/ae-{}-{}.csv", first.0, second.0);
        let _ = catch(|| save_csv(&a1, &bad).map_err(|e| e.to_string()));
        if run_save(ctx, "save_csv(after a failed call)", &case, || save_csv(&a2, &p).map_err(|e| e.to_string())) == Some(true) {
            match read_csv(&p, false) {
                Ok(t) => compare(ctx, "save_csv(after a failed call)", &t, ["chain", "observation"], second, &v2, true, &case),
                Err(e) => ctx.violation(Violation::new("C17:save_csv(after a failed call):unreadable", e, case.clone())),
            }
        }
        std::fs::remove_file(&p).ok();
        let p = format!("{dir}/ae-{}-{}.arrow", first.0, second.0);
        let _ = catch(|| save_arrow(&a1, &bad).map_err(|e| e.to_string()));
        if run_save(ctx, "save_arrow(after a failed call)", &case, || save_arrow(&a2, &p).map_err(|e| e.to_string())) == Some(true) {
            match read_arrow(&p) {
                Ok(t) => compare(ctx, "save_arrow(after a failed call)", &t, ["chain", "observation"], second, &v2, false, &case),
                Err(e) => ctx.violation(Violation::new("C17:save_arrow(after a failed call):unreadable", e, case.clone())),
            }
        }
        std::fs::remove_file(&p).ok();
        let p = format!("{dir}/ae-{}-{}.parquet", first.0, second.0);
        let _ = catch(|| save_parquet(&a1, &bad).map_err(|e| e.to_string()));
        if run_save(ctx, "save_parquet(after a failed call)", &case, || save_parquet(&a2, &p).map_err(|e| e.to_string())) == Some(true) {
            match read_parquet(&p) {
                Ok(t) => compare(ctx, "save_parquet(after a failed call)", &t, ["chain", "observation"], second, &v2, false, &case),
                Err(e) => ctx.violation(Violation::new("C17:save_parquet(after a failed call):unreadable", e, case.clone())),
            }
        }
        std::fs::remove_file(&p).ok();
        if let (Ok(t1), Ok(t2)) = (catch(|| mkt(first, 0.0)), catch(|| mkt(second, 0.5))) {
            let p = format!("{dir}/ae-{}-{}-t.csv", first.0, second.0);
            let _ = catch(|| save_csv_tensor(t1.clone(), &bad).map_err(|e| e.to_string()));
            if run_save(ctx, "save_csv_tensor(after a failed call)", &case, || save_csv_tensor(t2.clone(), &p).map_err(|e| e.to_string())) == Some(true) {
                match read_csv(&p, true) {
                    Ok(t) => compare(ctx, "save_csv_tensor(after a failed call)", &t, ["chain", "observation"], second, &v2f, true, &case),
                    Err(e) => ctx.violation(Violation::new("C17:save_csv_tensor(after a failed call):unreadable", e, case.clone())),
                }
            }
            std::fs::remove_file(&p).ok();
            let p = format!("{dir}/ae-{}-{}-t.parquet", first.0, second.0);
            let _ = catch(|| save_parquet_tensor::<NdArray<f32>, _, f32>(&t1, &bad).map_err(|e| e.to_string()));
            if run_save(ctx, "save_parquet_tensor(after a failed call)", &case, || save_parquet_tensor::<NdArray<f32>, _, f32>(&t2, &p).map_err(|e| e.to_string())) == Some(true) {
                match read_parquet(&p) {
                    Ok(t) => compare(ctx, "save_parquet_tensor(after a failed call)", &t, ["observation", "chain"], second, &v2f, false, &case),
                    Err(e) => ctx.violation(Violation::new("C17:save_parquet_tensor(after a failed call):unreadable", e, case.clone())),
                }
            }
            std::fs::remove_file(&p).ok();
        }
    }
}

fn specials() -> Vec<f64> {
    vec![0.0, -0.0, f32::MIN_POSITIVE as f64 / 4.0, -(f32::MIN_POSITIVE as f64) / 8.0, f32::MAX as f64, -(f32::MAX as f64), f64::INFINITY, f64::NEG_INFINITY, f64::NAN, 1.0 / 3.0, f64::MAX, f64::MIN_POSITIVE / 2.0, 1e-320]
}

pub fn run(ctx: &Ctx) {
    ctx.rule("every shape of the stated box with position-coded contents (each cell distinct: value = 10000*i + 100*j + k + 0.25) through all five save functions and every accepted element type; special values placed in every cell of the shapes <= 2x3x2; files re-read with the csv / arrow-ipc / parquet readers of the locked crate versions. states = distinct (shape, special) inputs; transitions = save calls; non-trivial = a coded shape, distinct by shape");
    let (mc, mo, md) = if ctx.tier.thorough() { (6usize, 40usize, 8usize) } else { (3, 6, 3) };
    ctx.extra("shape_box", json!(format!("0..={mc} x 0..={mo} x 0..={md}")));
    let mut shapes = vec![];
    for c in 0..=mc {
        for o in 0..=mo {
            for d in 0..=md {
                shapes.push((c, o, d));
            }
        }
    }
    if !ctx.tier.thorough() {
        // a few far corners of the full box in the quick tier too
        shapes.extend([(6, 40, 8), (1, 40, 1), (6, 1, 8), (5, 39, 7), (6, 0, 8), (0, 40, 8), (6, 40, 0)]);
    }
    shapes.par_iter().for_each(|s| check_shape(ctx, *s, None));
    // special values in every cell
    let mut jobs = vec![];
    for shape in [(1usize, 1usize, 1usize), (2, 1, 2), (1, 3, 2), (2, 3, 2)] {
        for pos in 0..shape.0 * shape.1 * shape.2 {
            for v in specials() {
                jobs.push((shape, pos, v));
            }
        }
    }
    ctx.extra("special_value_cases", json!(jobs.len()));
    jobs.par_iter().for_each(|(s, pos, v)| check_shape(ctx, *s, Some((*pos, *v))));
    error_paths(ctx);
    overwrite_histories(ctx);
    after_error_histories(ctx);
    std::fs::remove_dir_all(scratch()).ok();
    ctx.assume("read-only-file error path is not exercised (the harness runs as root, for whom the file is writable); a save that returns Err is counted, not a violation");
    if ctx.outcome_count("save_parquet_tensor<f32>:roundtrip-ok") == 0 || ctx.outcome_count("save_csv<f64>:roundtrip-ok") == 0 {
        ctx.machinery_error("vacuity guard: no successful round trip observed");
    }
}

pub fn check_case(ctx: &Ctx, case: &Value) {
    if case.get("error_path").is_some() {
        error_paths(ctx);
        return;
    }
    if case.get("after_error").is_some() {
        after_error_histories(ctx);
        std::fs::remove_dir_all(scratch()).ok();
        return;
    }
    if case.get("overwrite").is_some() {
        overwrite_histories(ctx);
        std::fs::remove_dir_all(scratch()).ok();
        return;
    }
    let s = &case["shape"];
    let shape = (s[0].as_u64().unwrap_or(0) as usize, s[1].as_u64().unwrap_or(0) as usize, s[2].as_u64().unwrap_or(0) as usize);
    let special = case.get("special").and_then(|sp| {
        let pos = sp.get("pos")?.as_u64()? as usize;
        let bits = u64::from_str_radix(sp.get("bits")?.as_str()?, 16).ok()?;
        Some((pos, f64::from_bits(bits)))
    });
    check_shape(ctx, shape, special);
    std::fs::remove_dir_all(scratch()).ok();
}
