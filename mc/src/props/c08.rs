//! C08 — chains of one sampler are driven by distinct random streams.
use crate::burnutil::*;
use crate::common::*;
use crate::zoo::*;
use mini_mcmc::core::MarkovChain;
use mini_mcmc::distributions::Proposal;
use mini_mcmc::metropolis_hastings::MetropolisHastings;
use mini_mcmc::verif;
use rand::rngs::SmallRng;
use rand::SeedableRng;
use rayon::prelude::*;
use serde_json::{json, Value};
use std::cell::RefCell;
use std::rc::Rc;

fn seeds() -> Vec<Option<u64>> {
    // the last group sits around 0x9E3779B97F4A7C15, the constant that separates a chain's proposal stream from its
    // acceptance stream: seeds there make the derived proposal seeds small numbers (0, 1, 2, ...)
    let c = 0x9E37_79B9_7F4A_7C15u64;
    vec![None, Some(0), Some(1), Some(42), Some(1 << 32), Some(u64::MAX - 40), Some(u64::MAX - 1), Some(u64::MAX), Some(c), Some(c - 1), Some(c - 2), Some(c - 3), Some(c - 65), Some(c + 1)]
}

fn first_pair<T: PartialEq>(v: &[T]) -> Option<(usize, usize)> {
    for i in 0..v.len() {
        for j in i + 1..v.len() {
            if v[i] == v[j] {
                return Some((i, j));
            }
        }
    }
    None
}

fn sd(seed: Option<u64>) -> String {
    seed.map(|s| s.to_string()).unwrap_or_else(|| "unseeded".into())
}

fn mh_case(ctx: &Ctx, n: usize, seed: Option<u64>) {
    mh_case_v(ctx, n, seed, 0);
    // the proposal handed to the constructor has already produced candidates (a trial draw): its per-chain copies
    // must still be driven by different streams
    if n <= 8 || n == 64 {
        mh_case_v(ctx, n, seed, 1);
        mh_case_v(ctx, n, seed, 70);
    }
}
fn mh_case_v(ctx: &Ctx, n: usize, seed: Option<u64>, pre_used: usize) {
    let case = json!({"sampler": "MH", "n_chains": n, "seed": sd(seed), "proposal_samples_before_construction": pre_used});
    let tag = if seed.is_some() { "seeded" } else { "unseeded" };
    ctx.evals(1);
    ctx.state(hash_str(&case.to_string()));
    let r = catch(|| {
        let mut s = if pre_used == 0 {
            mh_build(n, seed, true)
        } else {
            let mut p = mini_mcmc::distributions::IsotropicGaussian::<f64>::new(1.0);
            for _ in 0..pre_used {
                let _ = p.sample(&[0.0, 0.0]);
            }
            let s = MetropolisHastings::new(mh_target(), p, vec![vec![0.25, -0.5]; n]);
            match seed {
                Some(x) => s.seed(x),
                None => s,
            }
        };
        // (i) proposal generators pairwise different, first proposals from the common state differ
        let props: Vec<_> = s.chains.iter().map(|c| c.proposal.clone()).collect();
        let firsts: Vec<Vec<u64>> = s.chains.iter().map(|c| c.proposal.clone().sample(&c.current_state).iter().map(|x| x.to_bits()).collect()).collect();
        let rngs: Vec<SmallRng> = s.chains.iter().map(|c| c.rng.clone()).collect();
        // (iv) trajectories over 64 steps
        let mut trajs: Vec<Vec<u64>> = vec![vec![]; n];
        let mut moved: Vec<Vec<bool>> = vec![vec![]; n];
        for c in 0..n {
            for _ in 0..64 {
                let before = s.chains[c].current_state.clone();
                let st = s.chains[c].step().clone();
                moved[c].push(st != before);
                trajs[c].extend(st.iter().map(|x| x.to_bits()));
            }
        }
        (first_pair(&props), first_pair(&firsts), first_pair(&rngs), first_pair(&trajs), first_pair(&moved))
    });
    ctx.transitions(n as u64 * 65);
    match r {
        Err(m) => ctx.violation(Violation::new("C08:panic(MH)", format!("MH with {n} chains, seed {}: {m}", sd(seed)), case.clone())),
        Ok((p, f, g, t, mv)) => {
            if let Some((i, j)) = p.or(f) {
                ctx.violation(Violation::new(
                    format!("C08:mh-proposal-stream-shared({tag})"),
                    format!("MH ({n} chains, seed {}): chains {i} and {j} hold identical proposal generators — first proposals from the common state are equal", sd(seed)),
                    case.clone(),
                ));
            }
            if let Some((i, j)) = g {
                ctx.violation(Violation::new(format!("C08:mh-accept-stream-shared({tag})"), format!("MH ({n} chains, seed {}): chains {i} and {j} hold identical acceptance generators", sd(seed)), case.clone()));
            }
            if let Some((i, j)) = t {
                ctx.violation(Violation::new(format!("C08:mh-trajectories-equal({tag})"), format!("MH ({n} chains, seed {}): chains {i} and {j} follow identical trajectories for 64 steps from the common start", sd(seed)), case.clone()));
            } else if p.is_none() && f.is_none() && g.is_none() {
                ctx.outcome("MH:distinct", 1);
                ctx.sample_tagged("MH configuration", || case.clone());
                ctx.distinct(hash_str(&case.to_string()));
            }
            let _ = mv;
        }
    }
    if pre_used != 0 {
        return;
    }
    // (iii) user-defined seedable proposal: acceptance generator never equals the proposal generator of the same chain
    let r = catch(|| {
        let prop = SeedableProp { rng: SmallRng::seed_from_u64(7), seeded_with: None };
        let prop = match seed {
            Some(s) => prop.set_seed(s),
            None => prop,
        };
        let s = MetropolisHastings::<f64, f64, _, _>::new(mh_target(), prop, vec![vec![0.25, -0.5]; n]);
        let s = match seed {
            Some(x) => s.seed(x),
            None => s,
        };
        let same_within: Option<usize> = s.chains.iter().position(|c| c.rng == c.proposal.rng);
        let props: Vec<SmallRng> = s.chains.iter().map(|c| c.proposal.rng.clone()).collect();
        // no generator of ANY chain equals a generator of another chain: proposal stream of i vs acceptance stream of j
        let mut cross: Option<(usize, usize)> = None;
        'outer: for (i, ci) in s.chains.iter().enumerate() {
            for (j, cj) in s.chains.iter().enumerate() {
                if i != j && ci.proposal.rng == cj.rng {
                    cross = Some((i, j));
                    break 'outer;
                }
            }
        }
        (same_within, first_pair(&props), cross)
    });
    ctx.transitions(1);
    match r {
        Err(m) => ctx.violation(Violation::new("C08:panic(MH)", format!("MH/user proposal with {n} chains, seed {}: {m}", sd(seed)), case)),
        Ok((w, p, x)) => {
            if let Some((i, j)) = x {
                ctx.violation(Violation::new(
                    format!("C08:mh-proposal-stream-is-another-chains-accept-stream({tag})"),
                    format!("MH with a user-defined seedable proposal ({n} chains, seed {}): chain {i}'s proposal generator is identical to chain {j}'s acceptance generator — two chains consume one stream", sd(seed)),
                    case.clone(),
                ));
            }
            if let Some(c) = w {
                ctx.violation(Violation::new(format!("C08:mh-accept-equals-proposal-stream({tag})"), format!("MH ({n} chains, seed {}): chain {c}'s acceptance generator is seeded identically to its proposal generator", sd(seed)), case.clone()));
            }
            if let Some((i, j)) = p {
                ctx.violation(Violation::new(
                    format!("C08:mh-proposal-stream-shared({tag})"),
                    format!("MH with a user-defined seedable proposal ({n} chains, seed {}): chains {i} and {j} hold identical proposal generators", sd(seed)),
                    case.clone(),
                ));
            }
        }
    }
}

fn nuts_case(ctx: &Ctx, n: usize, seed: Option<u64>) {
    let case = json!({"sampler": "NUTS", "n_chains": n, "seed": sd(seed)});
    let tag = if seed.is_some() { "seeded" } else { "unseeded" };
    ctx.evals(1);
    ctx.state(hash_str(&case.to_string()));
    let r = catch(|| {
        let t = nuts_build::<f64, BF64>(n, seed, true).run(4, 0);
        let c = cube(&t);
        let trajs: Vec<Vec<u64>> = c.iter().map(|ch| ch.iter().flatten().map(|x| x.to_bits()).collect()).collect();
        first_pair(&trajs)
    });
    ctx.transitions(n as u64 * 3);
    match r {
        Err(m) => ctx.violation(Violation::new("C08:panic(NUTS)", format!("NUTS with {n} chains, seed {}: {m}", sd(seed)), case)),
        Ok(Some((i, j))) => ctx.violation(Violation::new(format!("C08:nuts-stream-shared({tag})"), format!("NUTS ({n} chains, seed {}): chains {i} and {j} follow identical trajectories from the common start", sd(seed)), case)),
        Ok(None) => {
            ctx.outcome("NUTS:distinct", 1);
            ctx.distinct(hash_str(&case.to_string()));
        }
    }
}

fn hmc_case(ctx: &Ctx, n: usize, seed: Option<u64>) {
    hmc_case_v(ctx, n, seed, false);
    // the batch of chains may also be installed through the public `positions` field of a sampler built for ONE chain
    hmc_case_v(ctx, n, seed, true);
}
fn hmc_case_v(ctx: &Ctx, n: usize, seed: Option<u64>, rebatch: bool) {
    let case = json!({"sampler": "HMC", "n_chains": n, "seed": sd(seed), "batch_installed_through_positions_field": rebatch});
    let tag = if seed.is_some() { "seeded" } else { "unseeded" };
    ctx.evals(1);
    ctx.state(hash_str(&case.to_string()));
    let r = catch(|| {
        let rec: Rc<RefCell<Vec<(String, Vec<f64>)>>> = Rc::new(RefCell::new(vec![]));
        let r2 = rec.clone();
        let prev = verif::set_tap(Some(Box::new(move |label, vals| {
            if label == "hmc.momentum" || label == "hmc.uniform" {
                r2.borrow_mut().push((label.to_string(), vals.to_vec()));
            }
        })));
        let mut s = if rebatch {
            let mut one = hmc_build::<f64, BF64>(1, seed, true);
            one.positions = crate::burnutil::t2::<BF64>(&vec![vec![0.5, 0.5]; n]);
            one
        } else {
            hmc_build::<f64, BF64>(n, seed, true)
        };
        let t = s.run(3, 0);
        verif::set_tap(prev);
        let c = cube(&t);
        let trajs: Vec<Vec<u64>> = c.iter().map(|ch| ch.iter().flatten().map(|x| x.to_bits()).collect()).collect();
        let recs = rec.borrow();
        let mut mom_pair = None;
        let mut uni_pair = None;
        for (label, vals) in recs.iter() {
            if label == "hmc.momentum" {
                let d = vals.len() / n;
                let rows: Vec<Vec<u64>> = (0..n).map(|i| vals[i * d..(i + 1) * d].iter().map(|x| x.to_bits()).collect()).collect();
                mom_pair = mom_pair.or(first_pair(&rows));
            } else {
                let rows: Vec<u64> = vals.iter().map(|x| x.to_bits()).collect();
                uni_pair = uni_pair.or(first_pair(&rows));
            }
        }
        (first_pair(&trajs), mom_pair, uni_pair, recs.len())
    });
    ctx.transitions(3);
    match r {
        Err(m) => ctx.violation(Violation::new("C08:panic(HMC)", format!("HMC with {n} chains, seed {}: {m}", sd(seed)), case)),
        Ok((t, m, u, nrec)) => {
            if nrec == 0 {
                ctx.machinery_error("HMC taps (hmc.momentum / hmc.uniform) recorded nothing");
            }
            if let Some((i, j)) = m {
                ctx.violation(Violation::new(format!("C08:hmc-momentum-shared({tag})"), format!("HMC ({n} chains, seed {}): rows {i} and {j} received identical momenta in one step", sd(seed)), case.clone()));
            }
            // with n >= 2^12 uniforms f32 collisions would be plausible; here n <= 64 and f64
            if let Some((i, j)) = u {
                ctx.violation(Violation::new(format!("C08:hmc-uniform-shared({tag})"), format!("HMC ({n} chains, seed {}): rows {i} and {j} received identical acceptance draws in one step", sd(seed)), case.clone()));
            }
            if let Some((i, j)) = t {
                ctx.violation(Violation::new(format!("C08:hmc-trajectories-equal({tag})"), format!("HMC ({n} chains, seed {}): rows {i} and {j} follow identical trajectories from the common start", sd(seed)), case.clone()));
            } else if m.is_none() && u.is_none() {
                ctx.outcome("HMC:distinct", 1);
                ctx.distinct(hash_str(&case.to_string()));
            }
        }
    }
}

/// The library's own seedable proposal: different seeds give different noise, the same seed the same noise.
fn proposal_seeding(ctx: &Ctx) {
    use mini_mcmc::distributions::IsotropicGaussian;
    // small and extreme seeds, plus every single-bit flip of 42
    let mut seeds: Vec<u64> = vec![0, 1, 2, 3, 41, 42, 1 << 32, 1 << 63, u64::MAX - 1, u64::MAX];
    seeds.extend((0..64).map(|b| 42u64 ^ (1u64 << b)));
    seeds.sort();
    seeds.dedup();
    let draws: Vec<Vec<u64>> = seeds.iter().map(|s| IsotropicGaussian::<f64>::new(1.0).set_seed(*s).sample(&[0.0, 0.0, 0.0]).iter().map(|x| x.to_bits()).collect()).collect();
    ctx.evals(1);
    ctx.transitions(seeds.len() as u64);
    for i in 0..seeds.len() {
        let again: Vec<u64> = IsotropicGaussian::<f64>::new(1.0).set_seed(seeds[i]).sample(&[0.0, 0.0, 0.0]).iter().map(|x| x.to_bits()).collect();
        if again != draws[i] {
            ctx.violation(Violation::new("C08:proposal-seed-not-reproducible", format!("IsotropicGaussian seeded twice with {} draws different noise", seeds[i]), json!({"sampler": "proposal", "seed": seeds[i].to_string()})));
        }
        for j in i + 1..seeds.len() {
            if draws[i] == draws[j] {
                ctx.violation(Violation::new(
                    "C08:proposal-seeds-collide",
                    format!("IsotropicGaussian::set_seed({}) and set_seed({}) give the same noise stream", seeds[i], seeds[j]),
                    json!({"sampler": "proposal", "seed": seeds[i].to_string(), "other": seeds[j].to_string()}),
                ));
            }
        }
    }
    ctx.outcome("proposal-seeding-checked", 1);
}

/// FREE-RUNNING SUPPLEMENT (declared sampling of schedules, not part of the exhaustive claim): default construction has no
/// hook the scheduler could interleave at — and a shared seed source introduced by a change would not carry one — so
/// the enumerated grid above cannot see a data race between constructors. 16 real threads build default (unseeded)
/// 64-chain MH samplers at the same time; within every sampler all acceptance generators must be pairwise different.
fn concurrent_construction(ctx: &Ctx) {
    let iters = ctx.tier.pick(150usize, 1500);
    let threads = 16;
    let barrier = std::sync::Arc::new(std::sync::Barrier::new(threads));
    let hs: Vec<_> = (0..threads)
        .map(|t| {
            let b = barrier.clone();
            std::thread::spawn(move || {
                b.wait();
                for it in 0..iters {
                    let s = mh_build(64, None, true);
                    let rngs: Vec<SmallRng> = s.chains.iter().map(|c| c.rng.clone()).collect();
                    if let Some((i, j)) = first_pair(&rngs) {
                        return Some((t, it, i, j));
                    }
                }
                None
            })
        })
        .collect();
    let mut hit = None;
    for h in hs {
        if let Ok(Some(x)) = h.join() {
            hit = hit.or(Some(x));
        }
    }
    ctx.evals(1);
    ctx.transitions((threads * iters) as u64);
    let case = json!({"sampler": "MH-concurrent-construction", "n_chains": 64, "seed": "unseeded"});
    match hit {
        Some((t, it, i, j)) => ctx.violation(Violation::new(
            "C08:mh-accept-stream-shared(unseeded, concurrent construction)",
            format!("thread {t}, sampler #{it}: chains {i} and {j} of one default-built 64-chain MH sampler hold identical acceptance generators while 15 other threads construct samplers"),
            case,
        )),
        None => ctx.outcome("concurrent default constructions (free-running supplement): all generators distinct", (threads * iters) as u64),
    }
}

pub fn run(ctx: &Ctx) {
    ctx.rule("grid: n_chains in the stated set x seeds {unseeded, 0, 1, 42, 2^32, u64::MAX-40, u64::MAX-1, u64::MAX} x {MH with the library proposal (fresh, and used 1 / 70 times before construction), MH with a user-defined seedable proposal, HMC (recorded momenta/uniforms per row; also batches of 2048-4100 chains and batches installed through the public positions field), NUTS}; all chains start from one common state; pairwise comparison of generators (proposal vs proposal, acceptance vs acceptance, and every chain's proposal generator vs every chain's acceptance generator), first proposals, recorded draws and 64-step (MH) / 3-step trajectories. states = distinct (sampler, n_chains, seed) configurations; transitions = chain steps executed; non-trivial = a configuration whose chains are pairwise distinct");
    proposal_seeding(ctx);
    let ns: Vec<usize> = if ctx.tier.thorough() { (2..=64).collect() } else { vec![2, 3, 8, 64] };
    ctx.extra("n_chains", json!(if ctx.tier.thorough() { "2..=64 (all)".to_string() } else { format!("{ns:?}") }));
    let jobs: Vec<(usize, Option<u64>)> = ns.iter().flat_map(|n| seeds().into_iter().map(move |s| (*n, s))).collect();
    jobs.par_iter().for_each(|(n, seed)| {
        mh_case(ctx, *n, *seed);
        if *n <= 16 || *n % 16 == 0 {
            nuts_case(ctx, *n, *seed);
        }
        hmc_case(ctx, *n, *seed);
    });
    // batches at and beyond 4096 momentum values per step (a size at which a sampler might switch to a bulk / parallel
    // way of drawing): 2048 and 4100 two-dimensional chains from one common start
    let big: Vec<usize> = if ctx.tier.thorough() { vec![2047, 2048, 2049, 4100] } else { vec![2048, 2049] };
    big.par_iter().for_each(|n| {
        for seed in [None, Some(42u64)] {
            hmc_case_v(ctx, *n, seed, false);
        }
    });
    concurrent_construction(ctx);
    ctx.assume("free-running supplement (NOT exhaustive, schedules are sampled by the OS): 16 threads x 150 (quick) / 1500 (thorough) default constructions of 64-chain MH samplers, generators pairwise distinct within each sampler; it exists because constructors contain no scheduling point");
    ctx.assume("unseeded construction draws OS entropy (the one nondeterminism the harness does not own): the oracle is pairwise inequality, insensitive to the values; accidental collisions have probability ~2^-64");
}

pub fn check_case(ctx: &Ctx, case: &Value) {
    let n = case["n_chains"].as_u64().unwrap_or(2) as usize;
    let seed = case["seed"].as_str().and_then(|s| s.parse::<u64>().ok());
    match case["sampler"].as_str() {
        Some("proposal") => proposal_seeding(ctx),
        Some("MH-concurrent-construction") => concurrent_construction(ctx),
        Some("MH") => mh_case_v(ctx, n, seed, case["proposal_samples_before_construction"].as_u64().unwrap_or(0) as usize),
        Some("NUTS") => nuts_case(ctx, n, seed),
        Some("HMC") => hmc_case_v(ctx, n, seed, case["batch_installed_through_positions_field"].as_bool().unwrap_or(false)),
        _ => {}
    }
}
