//! C10 — progress mode: same draws, always terminates, any precision; reporter faults.
//!  layer 1: E2 direct exploration of the real run_progress protocol (core + NUTS)
//!  layer 2: E5 abstract reporter model for N = 1..48 + conformance replay on the real reporter
//!  layer 3: fault enumeration (receiver dropped before / after transition k / after; reporter killed) and precision grid
use crate::burnutil::*;
use crate::common::*;
use crate::e2::{explore, Dec, Order, Session};
use crate::zoo::*;
use mini_mcmc::core::{run_chain, run_chain_progress, ChainRunner, HasChains, MarkovChain};
use mini_mcmc::stats::{ChainStats, RunStats};
use mini_mcmc::verif;
use ndarray::Array3;
use serde_json::{json, Value};
use std::collections::{HashMap, HashSet, VecDeque};
use std::sync::atomic::{AtomicBool, AtomicUsize, Ordering};
use std::sync::{Arc, Mutex};

// ------------------------------------------------------------------ counting chain

#[derive(Clone, Debug)]
pub struct CChain {
    pub id: usize,
    pub count: u64,
    pub state: Vec<f64>,
    /// fault injection: drop this receiver when the counter reaches `drop_at`
    pub rx: Option<Arc<Mutex<Option<std::sync::mpsc::Receiver<ChainStats>>>>>,
    pub drop_at: u64,
    /// every coordinate is multiplied by this (1 by default; 1e39 / 1e300 = finite f64 draws outside the f32 range)
    pub scale: f64,
}
impl CChain {
    pub fn new(id: usize) -> Self {
        CChain { id, count: 0, state: vec![id as f64, 0.0], rx: None, drop_at: u64::MAX, scale: 1.0 }
    }
}
impl MarkovChain<f64> for CChain {
    fn step(&mut self) -> &Vec<f64> {
        self.count += 1;
        if self.count == self.drop_at {
            if let Some(r) = &self.rx {
                r.lock().unwrap().take();
            }
        }
        // a chain that sometimes stays put (so that acceptance statistics are non-trivial)
        let v = (self.count / 2) as f64 * 0.5 + self.id as f64 * 10.0;
        self.state = vec![(self.id as f64 + 0.001 * self.count as f64) * self.scale, v * self.scale];
        &self.state
    }
    fn current_state(&self) -> &Vec<f64> {
        &self.state
    }
}
#[derive(Clone)]
pub struct CSampler {
    pub chains: Vec<CChain>,
}
impl CSampler {
    pub fn new(n: usize) -> Self {
        CSampler { chains: (0..n).map(CChain::new).collect() }
    }
}
impl HasChains<f64> for CSampler {
    type Chain = CChain;
    fn chains_mut(&mut self) -> &mut Vec<CChain> {
        &mut self.chains
    }
}

fn stats_bits(s: &RunStats) -> Vec<u32> {
    let f = |b: &mini_mcmc::stats::BasicStats| vec![b.min, b.median, b.max, b.mean, b.std].into_iter().map(|x| if x.is_nan() { 0x7fc00000 } else { x.to_bits() }).collect::<Vec<u32>>();
    let mut v = f(&s.ess);
    v.extend(f(&s.rhat));
    v
}

// ------------------------------------------------------------------ the global scheduling handler

#[derive(Clone, Copy, PartialEq)]
enum Mode {
    /// workers park before every transition; timer firings are choices when `timer`
    Direct { timer: bool },
    /// workers park once (before their first transition) and then run to completion
    Arrival,
}

struct Shared {
    sess: Arc<Session>,
    addr: HashMap<usize, usize>,
    mode: Mode,
    horizon: usize,
    after_workers: AtomicUsize,
    reporter_iter: AtomicUsize,
    kill_reporter_at: Option<usize>,
    hang: AtomicBool,
    states: Mutex<Vec<Vec<i64>>>,
    timer_always: bool,
    premature_exit: AtomicBool,
}

fn handler(sh: &Shared, label: &'static str, args: &[i64]) -> i64 {
    match label {
        "worker.step" => {
            let Some(idx) = sh.addr.get(&(args[0] as usize)) else { return 0 };
            let i = args[1];
            if sh.mode == Mode::Arrival && i > 0 {
                return 0;
            }
            sh.sess.point(&format!("W{idx}"), *idx as i64, &format!("s{i}"));
            0
        }
        "worker.timer" => {
            if sh.timer_always {
                return 1;
            }
            match sh.mode {
                Mode::Direct { timer: true } if args[0] < args[1] - 1 => sh.sess.choose("timer", 2) as i64,
                _ => 0,
            }
        }
        "worker.done" => {
            if let Some(idx) = sh.addr.get(&(args[0] as usize)) {
                sh.sess.exit(&format!("W{idx}"));
            }
            0
        }
        "reporter.top" => {
            let it = sh.reporter_iter.fetch_add(1, Ordering::SeqCst);
            if Some(it) == sh.kill_reporter_at {
                panic!("injected reporter fault at iteration {it}");
            }
            if it > 0 && sh.sess.live_others("R") == 0 {
                let k = sh.after_workers.fetch_add(1, Ordering::SeqCst);
                if k > sh.horizon {
                    sh.hang.store(true, Ordering::SeqCst);
                    panic!("horizon exceeded: reporter still looping {k} iterations after the last worker finished");
                }
            }
            sh.sess.point("R", i64::MAX, &format!("top{it}"));
            0
        }
        "reporter.state" => {
            sh.states.lock().unwrap().push(args.to_vec());
            0
        }
        "reporter.exit" => {
            if sh.sess.live_others("R") > 0 {
                sh.premature_exit.store(true, Ordering::SeqCst);
            }
            sh.sess.exit("R");
            0
        }
        _ => 0,
    }
}

struct ExecOut {
    decisions: Vec<Dec>,
    trace: Vec<String>,
    error: Option<String>,
    hang: bool,
    premature: bool,
    states: Vec<Vec<i64>>,
    result: Result<Result<(Vec<f64>, Vec<usize>, Vec<u32>), String>, String>,
}

#[derive(Clone)]
struct ExecCfg {
    n: usize,
    n_collect: usize,
    n_discard: usize,
    mode: Mode,
    kill_reporter_at: Option<usize>,
    idle_bound: usize,
    script: Option<Vec<String>>,
    nuts: bool,
}

fn horizon_for(n: usize) -> usize {
    n.div_ceil(5) + 3
}

fn execute(cfg: &ExecCfg, prefix: &[u32]) -> ExecOut {
    let expected = if cfg.kill_reporter_at == Some(0) { cfg.n } else { cfg.n + 1 };
    let sess = Session::new(expected, prefix.to_vec(), Order::CurrentWorkerFirst);
    if cfg.mode == Mode::Arrival {
        sess.set_arrival_mode(cfg.idle_bound);
    }
    if let Some(s) = &cfg.script {
        sess.set_script(s.clone());
    }
    let mk_shared = |addr: HashMap<usize, usize>| {
        Arc::new(Shared {
            sess: sess.clone(),
            addr,
            mode: cfg.mode,
            horizon: horizon_for(cfg.n),
            after_workers: AtomicUsize::new(0),
            reporter_iter: AtomicUsize::new(0),
            kill_reporter_at: cfg.kill_reporter_at,
            hang: AtomicBool::new(false),
            states: Mutex::new(vec![]),
            timer_always: false,
            premature_exit: AtomicBool::new(false),
        })
    };
    let (result, shared) = if cfg.nuts {
        let mut s = nuts_build::<f32, BF32>(cfg.n, Some(3), false);
        let addr: HashMap<usize, usize> = s.verif_chains_mut().iter().enumerate().map(|(i, c)| (c as *const _ as usize, i)).collect();
        let shared = mk_shared(addr);
        let sh2 = shared.clone();
        verif::set_sched(Some(Arc::new(move |l, a| handler(&sh2, l, a))));
        let r = catch(|| s.run_progress(cfg.n_collect, cfg.n_discard).map(|(t, st)| (v(&t), t.dims().to_vec(), stats_bits(&st))).map_err(|e| e.to_string()));
        verif::set_sched(None);
        (r, shared)
    } else {
        let mut s = CSampler::new(cfg.n);
        let addr: HashMap<usize, usize> = s.chains.iter().enumerate().map(|(i, c)| (c as *const _ as usize, i)).collect();
        let shared = mk_shared(addr);
        let sh2 = shared.clone();
        verif::set_sched(Some(Arc::new(move |l, a| handler(&sh2, l, a))));
        let r = catch(|| s.run_progress(cfg.n_collect, cfg.n_discard).map(|(a, st)| (a.iter().cloned().collect::<Vec<f64>>(), a.shape().to_vec(), stats_bits(&st))).map_err(|e| e.to_string()));
        verif::set_sched(None);
        (r, shared)
    };
    let o = sess.outcome();
    let states = shared.states.lock().unwrap().clone();
    ExecOut { decisions: o.decisions, trace: o.trace, error: o.error, hang: shared.hang.load(Ordering::SeqCst), premature: shared.premature_exit.load(Ordering::SeqCst), states, result }
}

/// What `run` returns from an identically built sampler (the oracle for the draws) + the stats of those draws.
fn expected_for(cfg: &ExecCfg) -> (Vec<f64>, Vec<usize>, Vec<u32>) {
    if cfg.nuts {
        // NUTS: run_progress(n, d) == run(n+1, d) without its first row
        let t = nuts_build::<f32, BF32>(cfg.n, Some(3), false).run(cfg.n_collect + 1, cfg.n_discard);
        let c = cube(&t);
        let flat: Vec<f64> = c.iter().flat_map(|ch| ch[1..].iter().flatten().cloned().collect::<Vec<_>>()).collect();
        let arr = Array3::from_shape_vec((cfg.n, cfg.n_collect, 2), flat.iter().map(|x| *x as f32).collect()).unwrap();
        let st = RunStats::from(arr.view());
        (flat, vec![cfg.n, cfg.n_collect, 2], stats_bits(&st))
    } else {
        let mut s = CSampler::new(cfg.n);
        let a = s.run(cfg.n_collect, cfg.n_discard).unwrap();
        let st = RunStats::from(a.view());
        (a.iter().cloned().collect(), a.shape().to_vec(), stats_bits(&st))
    }
}

fn check_exec(ctx: &Ctx, cfg: &ExecCfg, want: &(Vec<f64>, Vec<usize>, Vec<u32>), ex: &ExecOut, case: &Value) {
    let which = if cfg.nuts { "NUTS::run_progress" } else { "ChainRunner::run_progress" };
    if ex.hang {
        ctx.violation(Violation::new(
            format!("C10:hang({})", if cfg.nuts { "nuts" } else { "core" }),
            format!("{which} with {} chains: the reporter is still looping {} iterations after every chain finished (schedule tail {:?})", cfg.n, horizon_for(cfg.n), ex.trace.iter().rev().take(6).collect::<Vec<_>>()),
            case.clone(),
        ));
    }
    match &ex.result {
        Err(m) => ctx.violation(Violation::new(format!("C10:panic({})", if cfg.nuts { "nuts" } else { "core" }), format!("{which} panicked: {m}"), case.clone())),
        Ok(Err(e)) => ctx.violation(Violation::new("C10:error", format!("{which} returned Err: {e}"), case.clone())),
        Ok(Ok((draws, shape, stats))) => {
            if *shape != want.1 {
                ctx.violation(Violation::new("C10:shape", format!("{which} returned shape {shape:?}, run returns {:?}", want.1), case.clone()));
            } else if draws.iter().map(|x| x.to_bits()).ne(want.0.iter().map(|x| x.to_bits())) {
                ctx.violation(Violation::new(format!("C10:draws-differ({})", if cfg.nuts { "nuts" } else { "core" }), format!("{which} returns other draws than run from the same sampler state"), case.clone()));
            }
            if *stats != want.2 {
                ctx.violation(Violation::new("C10:stats-differ", format!("{which}: returned diagnostics differ from RunStats computed from the returned draws"), case.clone()));
            }
        }
    }
    // reporter-state invariants (informative for the model; violations of them are reported as such)
    let n = cfg.n as i64;
    let mut prev_fin = 0;
    for st in ex.states.iter() {
        let (fin, next) = (st[0], st[1]);
        let act = &st[2..];
        let mut ids: Vec<i64> = act.to_vec();
        ids.sort();
        ids.dedup();
        if fin < prev_fin || next > n || act.len() > 5 || ids.len() != act.len() || act.iter().any(|i| *i >= next) {
            ctx.violation(Violation::new("C10:reporter-invariant", format!("reporter state n_finished={fin} next_active={next} active={act:?} (N={n}) breaks an invariant"), case.clone()));
            break;
        }
        prev_fin = fin;
    }
    if ex.premature {
        ctx.outcome("reporter-exited-before-all-chains-finished", 1);
    }
}

fn direct(ctx: &Ctx) {
    // (n, total split, timer choices?, deviation bound, nuts?)
    let plans: Vec<(usize, usize, usize, bool, usize, bool)> = if ctx.tier.thorough() {
        vec![(1, 4, 0, true, 5, false), (2, 4, 0, true, 4, false), (2, 4, 1, false, 5, false), (2, 6, 3, true, 3, false), (3, 4, 1, true, 3, false), (3, 5, 0, false, 4, false), (4, 4, 0, false, 3, false), (6, 4, 0, false, 2, false), (2, 4, 0, true, 3, true), (2, 4, 1, false, 3, true), (3, 4, 0, false, 2, true)]
    } else {
        vec![(1, 4, 0, true, 2, false), (2, 4, 0, true, 2, false), (3, 4, 1, false, 2, false), (6, 4, 0, false, 1, false), (2, 4, 0, true, 1, true)]
    };
    let mut summary = vec![];
    for (n, n_collect, n_discard, timer, bound, nuts) in plans {
        let cfg = ExecCfg { n, n_collect, n_discard, mode: Mode::Direct { timer }, kill_reporter_at: None, idle_bound: 0, script: None, nuts };
        let want = expected_for(&cfg);
        let mut traces = HashSet::new();
        let mut rstates = HashSet::new();
        let mut k = 0u64;
        let res = explore(bound, ctx.tier.pick(6000, 200000), |prefix| {
            let ex = execute(&cfg, prefix);
            if let Some(e) = &ex.error {
                return Err(format!("{e} (direct n={n}, schedule {prefix:?})"));
            }
            let case = json!({"layer": "direct", "nuts": nuts, "n": n, "n_collect": n_collect, "n_discard": n_discard, "timer": timer, "schedule": prefix});
            check_exec(ctx, &cfg, &want, &ex, &case);
            if !prefix.is_empty() {
                ctx.sample_tagged("direct schedule", || json!({"input": case.clone(), "trace(thread@point)": ex.trace.clone(), "reporter_states(n_finished,next_active,active...)": ex.states.clone()}));
            }
            traces.insert(hash_of(&ex.trace));
            for s in ex.states.iter() {
                rstates.insert(hash_of(s));
            }
            if k < 2 {
                let ex2 = execute(&cfg, prefix);
                if ex2.trace != ex.trace || ex2.decisions != ex.decisions || ex2.states != ex.states {
                    return Err(format!("nondeterministic replay of schedule {prefix:?} (direct n={n})"));
                }
            }
            k += 1;
            Ok(ex.decisions)
        });
        match res {
            Err(e) => {
                ctx.machinery_error(format!("E2 exploration failed: {e}"));
                return;
            }
            Ok(st) => {
                ctx.evals(st.executions);
                ctx.transitions(st.decisions);
                ctx.traces(st.executions);
                ctx.states_bulk(rstates.iter().cloned());
                ctx.distinct_bulk(traces.iter().cloned());
                if st.capped {
                    ctx.cap(&format!("direct exploration n={n} nuts={nuts}: execution cap reached at deviation bound {bound}"));
                }
                summary.push(json!({"protocol": if nuts { "NUTS::run_progress" } else { "ChainRunner::run_progress" }, "chains": n, "n_collect": n_collect, "n_discard": n_discard, "timer_choices": timer, "deviation_bound": bound, "executions": st.executions, "distinct_schedules": traces.len(), "distinct_reporter_states": rstates.len(), "max_decisions": st.max_decisions}));
                if traces.len() < 2 && n > 1 {
                    ctx.machinery_error(format!("vacuity guard: one schedule only for direct n={n}"));
                }
            }
        }
    }
    ctx.extra("direct_exploration", Value::Array(summary));
}

fn arrival(ctx: &Ctx) {
    // (n, deviation bound or usize::MAX for all)
    let plans: Vec<(usize, usize)> = if ctx.tier.thorough() { vec![(5, usize::MAX), (6, usize::MAX), (7, 3), (11, 2), (16, 2), (48, 1)] } else { vec![(5, 3), (6, 2), (11, 1), (16, 1), (48, 0)] };
    let mut summary = vec![];
    for (n, bound) in plans {
        let cfg = ExecCfg { n, n_collect: 4, n_discard: 0, mode: Mode::Arrival, kill_reporter_at: None, idle_bound: n.div_ceil(5) + 2, script: None, nuts: false };
        let want = expected_for(&cfg);
        let mut traces = HashSet::new();
        let mut rstates = HashSet::new();
        let res = explore(bound, ctx.tier.pick(5000, 150000), |prefix| {
            let ex = execute(&cfg, prefix);
            if let Some(e) = &ex.error {
                return Err(format!("{e} (arrival n={n}, schedule {prefix:?})"));
            }
            let case = json!({"layer": "arrival", "n": n, "schedule": prefix});
            check_exec(ctx, &cfg, &want, &ex, &case);
            traces.insert(hash_of(&ex.trace));
            for s in ex.states.iter() {
                rstates.insert(hash_of(s));
            }
            Ok(ex.decisions)
        });
        match res {
            Err(e) => {
                ctx.machinery_error(format!("E2 arrival-order exploration failed: {e}"));
                return;
            }
            Ok(st) => {
                ctx.evals(st.executions);
                ctx.transitions(st.decisions);
                ctx.traces(st.executions);
                ctx.states_bulk(rstates.iter().cloned());
                ctx.distinct_bulk(traces.iter().cloned());
                if st.capped {
                    ctx.cap(&format!("arrival-order exploration n={n}: execution cap reached"));
                }
                summary.push(json!({"chains": n, "deviation_bound": if bound == usize::MAX { json!("none (all arrival orders)") } else { json!(bound) }, "executions": st.executions, "distinct_schedules": traces.len(), "distinct_reporter_states": rstates.len()}));
            }
        }
    }
    ctx.extra("arrival_order_exploration", Value::Array(summary));
}

// ------------------------------------------------------------------ E5: abstract reporter model

#[derive(Clone, PartialEq, Eq, Hash, Debug)]
struct MState {
    active: Vec<usize>,
    next_active: usize,
    n_finished: usize,
}

/// One reporter iteration in which exactly the active chains in `arrive` (a bitmask over slots) have
/// their final message visible. Returns (next state, exited?).
fn mstep(s: &MState, arrive: u32, n: usize) -> (MState, bool) {
    let mut t = s.clone();
    let mut to_replace = vec![false; s.active.len()];
    for slot in 0..s.active.len() {
        if arrive >> slot & 1 == 1 {
            to_replace[slot] = true;
            t.n_finished += 1;
        }
    }
    let mut to_remove = vec![];
    for slot in 0..s.active.len() {
        if to_replace[slot] && t.next_active < n {
            t.active[slot] = t.next_active;
            t.next_active += 1;
        } else if to_replace[slot] {
            to_remove.push(slot);
        }
    }
    for slot in to_remove.iter().rev() {
        t.active.remove(*slot);
    }
    let exit = t.n_finished >= n;
    (t, exit)
}

fn minit(n: usize) -> MState {
    MState { active: (0..n.min(5)).collect(), next_active: n.min(5), n_finished: 0 }
}

struct ModelGraph {
    states: Vec<MState>,
    /// (from, arrival mask, to or usize::MAX for exit)
    edges: Vec<(usize, u32, usize)>,
    parent: Vec<Option<(usize, u32)>>,
}

fn model_bfs(ctx: &Ctx, n: usize) -> Option<ModelGraph> {
    let mut idx: HashMap<MState, usize> = HashMap::new();
    let mut g = ModelGraph { states: vec![], edges: vec![], parent: vec![] };
    let mut q = VecDeque::new();
    let s0 = minit(n);
    idx.insert(s0.clone(), 0);
    g.states.push(s0);
    g.parent.push(None);
    q.push_back(0usize);
    while let Some(i) = q.pop_front() {
        let s = g.states[i].clone();
        // invariants on every state
        let mut ids = s.active.clone();
        ids.sort();
        ids.dedup();
        if s.n_finished > n || s.active.len() > 5 || ids.len() != s.active.len() || s.active.iter().any(|c| *c >= s.next_active) || s.next_active > n || s.n_finished + s.active.len() + (n - s.next_active) != n {
            ctx.violation(Violation::new("C10:model-invariant", format!("abstract reporter state {s:?} (N={n}) breaks an invariant"), json!({"layer": "model", "n": n})));
            return None;
        }
        for mask in 0u32..(1 << s.active.len()) {
            let (t, exit) = mstep(&s, mask, n);
            if exit {
                g.edges.push((i, mask, usize::MAX));
                continue;
            }
            if mask != 0 && t == s {
                ctx.violation(Violation::new("C10:model-no-progress", format!("abstract reporter makes no progress from {s:?} although finals {mask:b} are visible"), json!({"layer": "model", "n": n})));
                return None;
            }
            let j = *idx.entry(t.clone()).or_insert_with(|| {
                g.states.push(t.clone());
                g.parent.push(Some((i, mask)));
                q.push_back(g.states.len() - 1);
                g.states.len() - 1
            });
            g.edges.push((i, mask, j));
        }
    }
    // fair termination: with every active final visible each iteration ("all arrived"), exit within ceil(N/5)+1 iterations from ANY state
    for (i, s) in g.states.iter().enumerate() {
        let mut cur = s.clone();
        let mut steps = 0;
        loop {
            let full = (1u32 << cur.active.len()) - 1;
            let (t, exit) = mstep(&cur, full, n);
            steps += 1;
            if exit {
                break;
            }
            cur = t;
            if steps > n.div_ceil(5) + 1 {
                ctx.violation(Violation::new("C10:model-termination", format!("abstract reporter (N={n}) does not exit within ceil(N/5)+1 iterations from state #{i} {s:?} once every final message is visible"), json!({"layer": "model", "n": n})));
                return None;
            }
        }
    }
    // every cycle is an idle self-loop: edges with mask != 0 strictly increase n_finished
    for (a, mask, b) in g.edges.iter() {
        if *b != usize::MAX && *mask != 0 && g.states[*b].n_finished <= g.states[*a].n_finished {
            ctx.violation(Violation::new("C10:model-termination", format!("non-idle model transition without progress (N={n})"), json!({"layer": "model", "n": n})));
            return None;
        }
    }
    Some(g)
}

/// Replay a model path (sequence of arrival masks) on the REAL reporter and compare state by state.
fn conform_path(ctx: &Ctx, n: usize, masks: &[u32]) -> bool {
    // concrete schedule: before iteration t run the workers of the chains that arrive at t (ascending), then R
    let mut s = minit(n);
    let mut script: Vec<String> = vec![];
    let mut model_states = vec![];
    let mut finished = vec![false; n];
    let mut exited = false;
    for m in masks {
        let mut ws: Vec<usize> = (0..s.active.len()).filter(|slot| m >> slot & 1 == 1).map(|slot| s.active[slot]).collect();
        ws.sort();
        for w in ws {
            finished[w] = true;
            script.push(format!("W{w}"));
        }
        script.push("R".to_string());
        let (t, exit) = mstep(&s, *m, n);
        model_states.push((t.clone(), exit));
        s = t;
        if exit {
            exited = true;
            break;
        }
    }
    if !exited {
        // finish the run: every remaining worker, then reporter iterations with all finals visible
        for w in 0..n {
            if !finished[w] {
                script.push(format!("W{w}"));
            }
        }
        loop {
            script.push("R".to_string());
            let full = (1u32 << s.active.len()) - 1;
            let (t, exit) = mstep(&s, full, n);
            model_states.push((t.clone(), exit));
            s = t;
            if exit {
                break;
            }
        }
    }
    let cfg = ExecCfg { n, n_collect: 4, n_discard: 0, mode: Mode::Arrival, kill_reporter_at: None, idle_bound: 0, script: Some(script.clone()), nuts: false };
    let ex = execute(&cfg, &[]);
    let case = json!({"layer": "conformance", "n": n, "masks": masks});
    if let Some(e) = &ex.error {
        ctx.machinery_error(format!("conformance replay failed: {e} (N={n}, masks {masks:?})"));
        return false;
    }
    ctx.traces(1);
    ctx.evals(1);
    if ex.states.len() != model_states.len() {
        ctx.violation(Violation::new("C10:conformance", format!("N={n}, arrivals {masks:?}: the real reporter ran {} iterations, the abstract model {}", ex.states.len(), model_states.len()), case));
        return false;
    }
    for (k, (ms, _)) in model_states.iter().enumerate() {
        let real = &ex.states[k];
        let real_active: Vec<usize> = real[2..].iter().map(|x| *x as usize).collect();
        if real[0] as usize != ms.n_finished || real[1] as usize != ms.next_active || real_active != ms.active {
            ctx.violation(Violation::new(
                "C10:conformance",
                format!("N={n}, arrivals {masks:?}, iteration {k}: real reporter (n_finished={}, next_active={}, active={real_active:?}) vs model {ms:?}", real[0], real[1]),
                case,
            ));
            return false;
        }
    }
    let want = expected_for(&cfg);
    check_exec(ctx, &cfg, &want, &ex, &case);
    if masks.len() >= 2 && n >= 3 {
        ctx.sample_tagged("conformance replay", || json!({"input": case.clone(), "script": script.clone(), "real_reporter_states": ex.states.clone()}));
    }
    true
}

/// Quotient model (chain identities dropped): state = (k active slots, next_active, n_finished);
/// an iteration in which j of the k active finals are visible. Sound because the reporter never
/// branches on a chain id except through `next_active < N`: which slots arrive does not matter for (k, next, fin).
fn qstep(s: (usize, usize, usize), j: usize, n: usize) -> ((usize, usize, usize), bool) {
    let (k, next, fin) = s;
    let fin2 = fin + j;
    let repl = j.min(n - next);
    ((k - j + repl, next + repl, fin2), fin2 >= n)
}

/// BFS of the quotient model; returns (states, edges as (from, j, to|MAX), parents)
#[allow(clippy::type_complexity)]
fn quotient_bfs(ctx: &Ctx, n: usize) -> Option<(Vec<(usize, usize, usize)>, Vec<(usize, usize, usize)>, Vec<Option<(usize, usize)>>)> {
    let s0 = (n.min(5), n.min(5), 0usize);
    let mut idx = HashMap::new();
    idx.insert(s0, 0usize);
    let (mut states, mut edges, mut parent) = (vec![s0], vec![], vec![None]);
    let mut q = VecDeque::from([0usize]);
    while let Some(i) = q.pop_front() {
        let s = states[i];
        if s.2 > n || s.0 > 5 || s.1 > n || s.2 + s.0 + (n - s.1) != n {
            ctx.violation(Violation::new("C10:model-invariant", format!("quotient reporter state {s:?} (N={n}) breaks an invariant"), json!({"layer": "model", "n": n})));
            return None;
        }
        for j in 0..=s.0 {
            let (t, exit) = qstep(s, j, n);
            if exit {
                edges.push((i, j, usize::MAX));
                continue;
            }
            if j > 0 && t.2 <= s.2 {
                ctx.violation(Violation::new("C10:model-termination", format!("non-idle quotient transition without progress (N={n})"), json!({"layer": "model", "n": n})));
                return None;
            }
            let jx = *idx.entry(t).or_insert_with(|| {
                states.push(t);
                parent.push(Some((i, j)));
                q.push_back(states.len() - 1);
                states.len() - 1
            });
            edges.push((i, j, jx));
        }
    }
    for s in states.iter() {
        let mut cur = *s;
        let mut steps = 0;
        loop {
            let (t, exit) = qstep(cur, cur.0, n);
            steps += 1;
            if exit {
                break;
            }
            cur = t;
            if steps > n.div_ceil(5) + 1 {
                ctx.violation(Violation::new("C10:model-termination", format!("quotient reporter (N={n}) does not exit within ceil(N/5)+1 iterations from {s:?} once every final is visible"), json!({"layer": "model", "n": n})));
                return None;
            }
        }
    }
    Some((states, edges, parent))
}

fn model_and_conformance(ctx: &Ctx) {
    let mut total_states = 0usize;
    let mut total_edges = 0usize;
    let mut graphs: HashMap<usize, ModelGraph> = HashMap::new();
    let id_upto = ctx.tier.pick(9usize, 12);
    for n in 1..=id_upto {
        // chain identities kept (slot order and ids matter for the conformance comparison)
        let Some(g) = model_bfs(ctx, n) else { return };
        total_states += g.states.len();
        total_edges += g.edges.len();
        for s in g.states.iter() {
            ctx.state(hash_of(&(n, s)));
        }
        ctx.transitions(g.edges.len() as u64);
        graphs.insert(n, g);
    }
    let mut q_states = 0usize;
    let mut q_edges = 0usize;
    let mut qgraphs = HashMap::new();
    for n in 1..=48usize {
        let Some(g) = quotient_bfs(ctx, n) else { return };
        q_states += g.0.len();
        q_edges += g.1.len();
        for s in g.0.iter() {
            ctx.state(hash_of(&("q", n, s)));
        }
        ctx.transitions(g.1.len() as u64);
        qgraphs.insert(n, g);
    }
    ctx.extra("abstract_model", json!({"with_chain_identities": {"chain_counts": format!("1..={id_upto}"), "states": total_states, "transitions": total_edges}, "quotient_without_identities": {"chain_counts": "1..=48", "states": q_states, "transitions": q_edges}, "checked": ["invariants on every state", "no non-idle transition without progress", "exit within ceil(N/5)+1 iterations from every state once all finals are visible"]}));
    // independent cross-check of the abstract model with a standard model checker: the TLA+ transcription
    // (tla/Reporter.tla) is checked by TLC (same invariants, termination under weak fairness of arrivals) and its
    // reachable-state count must equal the Rust BFS count (+1 for the terminal state)
    {
        let verif_dir = std::env::var("VERIF_DIR").unwrap_or_else(|_| "/verif".to_string());
        let ns: Vec<usize> = if ctx.tier.thorough() { (1..=id_upto.min(10)).collect() } else { vec![3, 6] };
        let mut tlc_rows = vec![];
        for n in ns {
            let out = std::process::Command::new(format!("{verif_dir}/tla/run_tlc.sh")).arg(n.to_string()).arg(format!("{verif_dir}/.scratch/tlc-{n}-{}", std::process::id())).output();
            match out {
                Err(e) => {
                    ctx.outcome("TLC not runnable (skipped)", 1);
                    tlc_rows.push(json!({"n": n, "error": e.to_string()}));
                }
                Ok(o) => {
                    let text = String::from_utf8_lossy(&o.stdout).to_string();
                    let states: Option<usize> = text.split("states=").nth(1).and_then(|t| t.split_whitespace().next()).and_then(|t| t.parse().ok());
                    let rust = graphs.get(&n).map(|g| g.states.len());
                    if !o.status.success() || !text.contains(" ok") {
                        ctx.violation(Violation::new("C10:model-tlc", format!("TLC reports an error for the TLA+ transcription of the reporter model (N={n}): {}", text.chars().take(600).collect::<String>()), json!({"layer": "model", "n": n})));
                    } else if let (Some(s), Some(r)) = (states, rust) {
                        if s != r + 1 {
                            ctx.machinery_error(format!("abstract model mismatch for N={n}: TLC finds {s} states, the Rust BFS {r} (+1 terminal)"));
                        } else {
                            ctx.outcome("TLC cross-checks (invariants, termination, equal state count)", 1);
                        }
                    }
                    tlc_rows.push(json!({"n": n, "tlc_distinct_states": states, "rust_bfs_states_plus_terminal": rust.map(|r| r + 1)}));
                }
            }
        }
        ctx.extra("tlc_cross_check", Value::Array(tlc_rows));
    }
    // conformance: ALL model paths (idle iterations: at most one, at the start) for small N; transition cover for larger N
    let all_paths_upto = ctx.tier.pick(4usize, 6);
    let mut n_paths = 0u64;
    for n in 1..=all_paths_upto {
        let mut stack: Vec<(MState, Vec<u32>)> = vec![(minit(n), vec![])];
        while let Some((s, path)) = stack.pop() {
            let mut extended = false;
            for mask in 1u32..(1 << s.active.len()) {
                let (t, exit) = mstep(&s, mask, n);
                let mut p = path.clone();
                p.push(mask);
                extended = true;
                if exit {
                    if !conform_path(ctx, n, &p) {
                        return;
                    }
                    n_paths += 1;
                } else {
                    stack.push((t, p));
                }
            }
            let _ = extended;
        }
        // one path with idle iterations interleaved
        let mut p = vec![0u32];
        let mut s = minit(n);
        loop {
            let (t, exit) = mstep(&s, 1, n);
            p.push(1);
            p.push(0);
            s = t;
            if exit {
                break;
            }
        }
        if !conform_path(ctx, n, &p) {
            return;
        }
        n_paths += 1;
    }
    // transition cover for larger N: every transition of the identity graph (N <= id_upto), or every
    // transition of the quotient graph concretised as "the first j slots arrive" (N above)
    let cover_ns: Vec<usize> = if ctx.tier.thorough() { vec![7, 8, 11, 12, 16, 33, 48] } else { vec![6, 11, 48] };
    let mut n_cover = 0u64;
    for n in cover_ns {
        let mut paths: Vec<Vec<u32>> = vec![];
        if let Some(g) = graphs.get(&n) {
            for (from, mask, _) in g.edges.iter() {
                let mut rev = vec![];
                let mut cur = *from;
                while let Some((p, m)) = g.parent[cur] {
                    rev.push(m);
                    cur = p;
                }
                rev.reverse();
                rev.push(*mask);
                paths.push(rev);
            }
        } else {
            let (_, edges, parent) = &qgraphs[&n];
            for (from, j, _) in edges.iter() {
                let mut rev = vec![];
                let mut cur = *from;
                while let Some((p, jj)) = parent[cur] {
                    rev.push((1u32 << jj) - 1);
                    cur = p;
                }
                rev.reverse();
                rev.push((1u32 << j) - 1);
                paths.push(rev);
                // a second concretisation: the LAST j slots arrive (slot order matters for ids)
                if *j > 0 {
                    let mut alt = paths.last().unwrap().clone();
                    let l = alt.len();
                    // number of active slots at that point is not known here; shifting by one slot is always valid when j < k
                    alt[l - 1] = ((1u32 << j) - 1) << 1;
                    paths.push(alt);
                }
            }
        }
        let cap = ctx.tier.pick(150usize, 2500);
        let step = (paths.len() / cap).max(1);
        let mut done = 0;
        for (e, p) in paths.iter().enumerate() {
            if e % step != 0 {
                continue;
            }
            // skip concretisations whose mask refers to a slot that does not exist
            let mut s = minit(n);
            let mut valid = true;
            for m in p.iter() {
                if (*m as u64) >> s.active.len() != 0 {
                    valid = false;
                    break;
                }
                let (t, exit) = mstep(&s, *m, n);
                s = t;
                if exit {
                    break;
                }
            }
            if !valid {
                continue;
            }
            if !conform_path(ctx, n, p) {
                return;
            }
            n_cover += 1;
            done += 1;
        }
        if step > 1 {
            ctx.cap(&format!("conformance transition cover for N={n}: every {step}-th path replayed ({done} of {})", paths.len()));
        }
    }
    ctx.extra("conformance", json!({"all_model_paths_for_N_up_to": all_paths_upto, "paths_replayed": n_paths, "transition_cover_replays": n_cover}));
}

static PRECISION_REPORTER_ITERS: std::sync::atomic::AtomicU64 = std::sync::atomic::AtomicU64::new(0);
static PRECISION_HANG: AtomicBool = AtomicBool::new(false);
static PRECISION_WORKERS_DONE: std::sync::atomic::AtomicU64 = std::sync::atomic::AtomicU64::new(0);

/// Run `f` (which calls run_progress) with a pass-through scheduling handler that turns the reporter's sleep into
/// a yield and bounds the reporter's iterations; returns (result, reporter_never_exited).
fn bounded_handler(label: &'static str, args: &[i64]) -> i64 {
    match label {
        "worker.done" => {
            PRECISION_WORKERS_DONE.fetch_add(1, Ordering::SeqCst);
        }
        "reporter.exit" => reset_bounded(), // the next run_progress call of a sequence starts fresh
        "reporter.top" => {
            // the reporter is only bounded AFTER every worker has finished (while workers run it may spin arbitrarily long)
            let n = args.first().copied().unwrap_or(0) as u64;
            if PRECISION_WORKERS_DONE.load(Ordering::SeqCst) >= n {
                let k = PRECISION_REPORTER_ITERS.fetch_add(1, Ordering::SeqCst);
                if k > 200_000 {
                    PRECISION_HANG.store(true, Ordering::SeqCst);
                    panic!("reporter did not exit within 2e5 iterations after the last worker finished");
                }
            }
        }
        _ => {}
    }
    0
}

pub fn reset_bounded_pub() {
    reset_bounded();
}

fn reset_bounded() {
    PRECISION_REPORTER_ITERS.store(0, Ordering::SeqCst);
    PRECISION_WORKERS_DONE.store(0, Ordering::SeqCst);
}

/// Run `f` (which calls run_progress ONCE or several times in sequence) with a pass-through scheduling handler that
/// turns the reporter's sleep into a yield and bounds the reporter's iterations after the last worker finished;
/// returns (result, reporter_never_exited).
pub fn with_bounded_reporter<R>(f: impl FnOnce() -> R) -> (R, bool) {
    reset_bounded();
    PRECISION_HANG.store(false, Ordering::SeqCst);
    verif::set_sched(Some(Arc::new(bounded_handler)));
    let r = f();
    verif::set_sched(None);
    (r, PRECISION_HANG.swap(false, Ordering::SeqCst))
}

// ------------------------------------------------------------------ layer 3: faults and precision

fn receiver_faults(ctx: &Ctx) {
    // timer fires at every transition so that a send happens after every step
    let sess = Session::new(usize::MAX, vec![], Order::RankOnly);
    let shared = Arc::new(Shared {
        sess,
        addr: HashMap::new(),
        mode: Mode::Direct { timer: false },
        horizon: 0,
        after_workers: AtomicUsize::new(0),
        reporter_iter: AtomicUsize::new(0),
        kill_reporter_at: None,
        hang: AtomicBool::new(false),
        states: Mutex::new(vec![]),
        timer_always: true,
        premature_exit: AtomicBool::new(false),
    });
    for timer_always in [false, true] {
        if timer_always {
            let sh2 = shared.clone();
            verif::set_sched(Some(Arc::new(move |l, a| if l == "worker.timer" { handler(&sh2, l, a) } else { 0 })));
        }
        for n_collect in [4usize, 5, 9] {
            for n_discard in [0usize, 1, 3] {
                let total = n_collect + n_discard;
                let want: Vec<u64> = run_chain(&mut CChain::new(0), n_collect, n_discard).iter().map(|x| x.to_bits()).collect();
                // drop points: before the call (0), after transition k (1..=total), after the call (total+1), never (MAX)
                for drop_at in (0..=total as u64 + 1).chain([u64::MAX]) {
                    let case = json!({"layer": "receiver-fault", "n_collect": n_collect, "n_discard": n_discard, "drop_at": drop_at.to_string(), "timer_always": timer_always});
                    ctx.evals(1);
                    ctx.transitions(total as u64);
                    ctx.state(hash_str(&case.to_string()));
                    let r = catch(|| {
                        let (tx, rx) = std::sync::mpsc::channel::<ChainStats>();
                        let holder = Arc::new(Mutex::new(Some(rx)));
                        if drop_at == 0 {
                            holder.lock().unwrap().take();
                        }
                        let mut chain = CChain::new(0);
                        chain.rx = Some(holder.clone());
                        chain.drop_at = drop_at;
                        let out = run_chain_progress(&mut chain, n_collect, n_discard, tx);
                        let received = holder.lock().unwrap().as_ref().map(|r| r.try_iter().count());
                        (out.map(|a| a.iter().map(|x| x.to_bits()).collect::<Vec<u64>>()), received, chain.count)
                    });
                    match r {
                        Err(m) => ctx.violation(Violation::new("C10:panic(receiver-dropped)", format!("run_chain_progress panicked when the receiver is dropped at {drop_at} (n_collect {n_collect}, n_discard {n_discard}, send at every step: {timer_always}): {m}"), case)),
                        Ok((Err(e), _, _)) => ctx.violation(Violation::new("C10:error(receiver-dropped)", format!("run_chain_progress returned Err when the receiver is dropped at {drop_at}: {e}"), case)),
                        Ok((Ok(bits), received, count)) => {
                            if bits != want {
                                ctx.violation(Violation::new("C10:draws-differ(receiver-dropped)", format!("run_chain_progress returns other draws than run_chain when the receiver is dropped at {drop_at}"), case.clone()));
                            }
                            if count != total as u64 {
                                ctx.violation(Violation::new("C10:transition-count(receiver-dropped)", format!("chain performed {count} transitions, {total} needed"), case.clone()));
                            }
                            if drop_at == u64::MAX {
                                // a live receiver got the final message (n == total)
                                if received.unwrap_or(0) == 0 {
                                    ctx.violation(Violation::new("C10:final-message-missing", format!("a worker that runs to completion never sent its final statistics message (n_collect {n_collect}, n_discard {n_discard})"), case.clone()));
                                }
                            }
                            ctx.outcome("receiver-fault-cases-ok", 1);
                            ctx.distinct(hash_str(&case.to_string()));
                        }
                    }
                }
            }
        }
        verif::set_sched(None);
    }
}

fn reporter_faults(ctx: &Ctx) {
    for nuts in [false, true] {
        for n in [1usize, 2, 6] {
            if nuts && n == 6 {
                continue;
            }
            for kill in 0..3usize {
                let cfg = ExecCfg { n, n_collect: 4, n_discard: 1, mode: Mode::Arrival, kill_reporter_at: Some(kill), idle_bound: n.div_ceil(5) + 2, script: None, nuts };
                let want = expected_for(&cfg);
                // a few schedules: default, and reporter-first
                for prefix in [vec![], vec![n as u32], vec![n as u32, (n - 1) as u32]] {
                    let ex = execute(&cfg, &prefix);
                    if let Some(e) = &ex.error {
                        if e.contains("replay divergence") {
                            continue; // this prefix does not exist for this configuration
                        }
                        ctx.machinery_error(format!("reporter-fault execution failed: {e}"));
                        return;
                    }
                    let case = json!({"layer": "reporter-fault", "nuts": nuts, "n": n, "kill_at": kill, "schedule": prefix});
                    ctx.evals(1);
                    ctx.traces(1);
                    ctx.state(hash_str(&case.to_string()));
                    check_exec(ctx, &cfg, &want, &ex, &case);
                    ctx.outcome("reporter-killed-cases", 1);
                }
            }
        }
    }
}

fn precision_grid(ctx: &Ctx) {
    // f64 chains whose (finite) draws lie outside the f32 range: the statistics side works in f32, the call must still
    // return run's draws
    for scale in [1e39f64, 1e300] {
        for n in [1usize, 3] {
            let case = json!({"layer": "precision", "sampler": "user chain (f64)", "config": format!("{n} chain(s), draws of magnitude {scale:e}")});
            ctx.evals(1);
            ctx.transitions(2);
            ctx.state(hash_str(&case.to_string()));
            let mk = || {
                let mut s = CSampler::new(n);
                for c in s.chains.iter_mut() {
                    c.scale = scale;
                }
                s
            };
            let a = catch(|| mk().run(6, 1).map(|x| x.iter().map(|v| v.to_bits()).collect::<Vec<u64>>()).map_err(|e| e.to_string()));
            let b = catch(|| mk().run_progress(6, 1).map(|(x, _)| x.iter().map(|v| v.to_bits()).collect::<Vec<u64>>()).map_err(|e| e.to_string()));
            match (a, b) {
                (Ok(Ok(a)), Ok(Ok(b))) => {
                    if a != b {
                        ctx.violation(Violation::new("C10:draws-differ(huge f64 draws)", format!("run_progress returns other draws than run for draws of magnitude {scale:e}"), case.clone()));
                    } else {
                        ctx.outcome("precision-ok", 1);
                    }
                }
                (_, Err(m)) => ctx.violation(Violation::new("C10:panic(huge f64 draws)", format!("run_progress panicked for finite f64 draws of magnitude {scale:e}: {m}"), case.clone())),
                (_, Ok(Err(m))) => ctx.violation(Violation::new("C10:error(huge f64 draws)", format!("run_progress failed for finite f64 draws of magnitude {scale:e}: {m}"), case.clone())),
                (a, _) => ctx.machinery_error(format!("run itself failed on the harness chain: {a:?}")),
            }
        }
    }
    // HMC with a single chain, and with several chains that sit on one point and reject (live R-hat undefined): the call
    // must still succeed with run's draws
    for (n, eps, label) in [(1usize, 0.2f64, "1 chain"), (2, 0.2, "2 chains"), (3, 1e6, "3 chains, every proposal rejected")] {
        let case = json!({"layer": "precision", "sampler": "HMC", "types": "f32 / NdArray<f32>", "config": label});
        ctx.evals(1);
        ctx.transitions(2);
        ctx.state(hash_str(&case.to_string()));
        let mk = || {
            let mut s = hmc_gauss_build::<f32, BF32>(n, Some(5));
            s.step_size = eps as f32;
            if eps > 1.0 {
                s.positions = t2::<BF32>(&vec![vec![0.5, 0.5]; n]);
            }
            s
        };
        let a = catch(|| tensor_bits(&mk().run(5, 1)));
        let b = catch(|| mk().run_progress(5, 1).map(|(t, _)| tensor_bits(&t)).map_err(|e| e.to_string()));
        match (a, b) {
            (Ok(a), Ok(Ok(b))) => {
                if a != b {
                    ctx.violation(Violation::new("C10:draws-differ(HMC)", format!("HMC::run_progress returns other draws than run ({label})"), case.clone()));
                } else {
                    ctx.outcome("precision-ok", 1);
                }
            }
            (_, Ok(Err(e))) => ctx.violation(Violation::new("C10:error(HMC::run_progress)", format!("HMC::run_progress returned Err with {label}: {e}"), case.clone())),
            (Err(m), _) | (_, Err(m)) => ctx.violation(Violation::new("C10:panic(HMC)", format!("HMC with {label}: {m}"), case.clone())),
        }
    }
    macro_rules! hmc_case {
        ($T:ty, $B:ty, $name:expr) => {{
            let case = json!({"layer": "precision", "sampler": "HMC", "types": $name});
            ctx.evals(1);
            ctx.transitions(2);
            ctx.state(hash_str(&case.to_string()));
            let a = catch(|| tensor_bits(&hmc_gauss_build::<$T, $B>(3, Some(5)).run(6, 2)));
            let b = catch(|| hmc_gauss_build::<$T, $B>(3, Some(5)).run_progress(6, 2).map(|(t, st)| (tensor_bits(&t), v(&t), stats_bits(&st))).map_err(|e| e.to_string()));
            match (a, b) {
                (Err(m), _) => ctx.violation(Violation::new(format!("C10:panic(HMC::run {})", $name), m, case)),
                (_, Err(m)) => ctx.violation(Violation::new(format!("C10:panic(HMC::run_progress {})", $name), format!("HMC::run_progress panicked for {}: {m}", $name), case)),
                (_, Ok(Err(e))) => ctx.violation(Violation::new(format!("C10:error(HMC::run_progress {})", $name), format!("HMC::run_progress failed for {}: {e}", $name), case)),
                (Ok(a), Ok(Ok((b, vals, st)))) => {
                    if a != b {
                        ctx.violation(Violation::new(format!("C10:draws-differ(HMC {})", $name), format!("HMC::run_progress returns other draws than run for {}", $name), case.clone()));
                    }
                    let arr = Array3::from_shape_vec((3, 6, 2), vals.iter().map(|x| *x as f32).collect()).unwrap();
                    if stats_bits(&RunStats::from(arr.view())) != st {
                        ctx.violation(Violation::new(format!("C10:stats-differ(HMC {})", $name), format!("HMC::run_progress diagnostics differ from those of the returned draws for {}", $name), case.clone()));
                    }
                    ctx.outcome("precision-ok", 1);
                    ctx.distinct(hash_str(&case.to_string()));
                }
            }
        }};
    }
    hmc_case!(f32, BF32, "f32 / NdArray<f32>");
    hmc_case!(f64, BF64, "f64 / NdArray<f64>");
    hmc_case!(f64, BF32, "f64 / NdArray<f32>");
    hmc_case!(f32, BF64, "f32 / NdArray<f64>");
    macro_rules! nuts_case {
        ($T:ty, $B:ty, $name:expr) => {{
            let case = json!({"layer": "precision", "sampler": "NUTS", "types": $name});
            ctx.evals(1);
            ctx.transitions(2);
            ctx.state(hash_str(&case.to_string()));
            let a = catch(|| {
                let t = nuts_build::<$T, $B>(2, Some(5), false).run(6, 2);
                let c = cube(&t);
                c.iter().flat_map(|ch| ch[1..].iter().flatten().map(|x| x.to_bits()).collect::<Vec<_>>()).collect::<Vec<u64>>()
            });
            reset_bounded();
            let b = catch(|| nuts_build::<$T, $B>(2, Some(5), false).run_progress(5, 2).map(|(t, st)| (tensor_bits(&t), v(&t), stats_bits(&st))).map_err(|e| e.to_string()));
            match (a, b) {
                (Err(m), _) => ctx.violation(Violation::new(format!("C10:panic(NUTS::run {})", $name), m, case)),
                (_, Err(m)) => ctx.violation(Violation::new(format!("C10:panic(NUTS::run_progress {})", $name), format!("NUTS::run_progress panicked for {}: {m}", $name), case)),
                (_, Ok(Err(e))) => ctx.violation(Violation::new(format!("C10:error(NUTS::run_progress {})", $name), format!("NUTS::run_progress failed for {}: {e}", $name), case)),
                (Ok(a), Ok(Ok((b, vals, st)))) => {
                    if a != b {
                        ctx.violation(Violation::new(format!("C10:draws-differ(NUTS {})", $name), format!("NUTS::run_progress is not run's trajectory shifted by one draw for {}", $name), case.clone()));
                    }
                    let arr = Array3::from_shape_vec((2, 5, 2), vals.iter().map(|x| *x as f32).collect()).unwrap();
                    if stats_bits(&RunStats::from(arr.view())) != st {
                        ctx.violation(Violation::new(format!("C10:stats-differ(NUTS {})", $name), format!("NUTS::run_progress diagnostics differ from those of the returned draws for {}", $name), case.clone()));
                    }
                    ctx.outcome("precision-ok", 1);
                    ctx.distinct(hash_str(&case.to_string()));
                }
            }
        }};
    }
    nuts_case!(f32, BF32, "f32 / NdArray<f32>");
    nuts_case!(f64, BF64, "f64 / NdArray<f64>");
    nuts_case!(f64, BF32, "f64 / NdArray<f32>");
    nuts_case!(f32, BF64, "f32 / NdArray<f64>");
    // MH over f32/f64 states (the progress tracker converts to f32), Gibbs f64, chain counts beyond 5 bars, n_discard = 0
    for n in [1usize, 3, 7, 12] {
        for (c, d) in [(4usize, 0usize), (5, 3), (9, 1)] {
            let case = json!({"layer": "precision", "sampler": "MH/Gibbs", "n": n, "n_collect": c, "n_discard": d});
            ctx.evals(1);
            ctx.transitions(4);
            ctx.state(hash_str(&case.to_string()));
            let a = mh_run_bits(&mut mh_build(n, Some(8), false), c, d);
            reset_bounded();
            let b = catch(|| mh_build(n, Some(8), false).run_progress(c, d).map(|x| arr3_bits(&x.0)).map_err(|e| e.to_string())).and_then(|r| r);
            if PRECISION_HANG.swap(false, Ordering::SeqCst) {
                ctx.violation(Violation::new("C10:hang(core)", format!("MH run_progress with {n} chains ({c} collected, {d} discarded): the progress reporter never exits although every chain finished"), case.clone()));
            }
            if a != b {
                ctx.violation(Violation::new("C10:draws-differ(MH)", format!("MH run_progress vs run differ or fail: {:?}", b.as_ref().err()), case.clone()));
            } else {
                ctx.outcome("precision-ok", 1);
            }
            let a = gibbs_build(n, Some(8)).run(c, d).map(|x| arr3_bits(&x)).map_err(|e| e.to_string());
            reset_bounded();
            let b = catch(|| gibbs_build(n, Some(8)).run_progress(c, d).map(|x| arr3_bits(&x.0)).map_err(|e| e.to_string())).and_then(|r| r);
            if PRECISION_HANG.swap(false, Ordering::SeqCst) {
                ctx.violation(Violation::new("C10:hang(core)", format!("Gibbs run_progress with {n} chains: the progress reporter never exits although every chain finished"), case.clone()));
            }
            if a != b {
                ctx.violation(Violation::new("C10:draws-differ(Gibbs)", format!("Gibbs run_progress vs run differ or fail: {:?}", b.as_ref().err()), case.clone()));
            } else {
                ctx.outcome("precision-ok", 1);
            }
        }
    }
}

/// Long runs. The reporter counts a chain as finished when the count carried by a statistics message EQUALS the run's
/// total (the premise 'the final message carries n = total' of the abstract model, layer 2). Counts are exact for small
/// totals by the conformance replay; here the premise is checked across the first integer limit a float-typed or
/// narrowed counter meets: (a) a per-chain tracker fed 2^24+3 states reports exactly k at every k around 2^24;
/// (b, thorough) a real run_progress of 2^24+8 transitions of a trivial chain returns, with run's draws.
fn long_runs(ctx: &Ctx) {
    use mini_mcmc::stats::ChainTracker;
    let lim: u64 = 1 << 24;
    let case = json!({"layer": "long", "what": "tracker count across 2^24"});
    ctx.evals(1);
    ctx.state(hash_str(&case.to_string()));
    let r = catch(|| {
        let mut t = ChainTracker::new(1, &[0.0f32]);
        let mut bad: Option<(u64, u64)> = None;
        for k in 1..=lim + 3 {
            let x = [(k % 7) as f32];
            t.step(&x).map_err(|e| e.to_string())?;
            if k + 2 >= lim && bad.is_none() {
                let n = t.stats().n;
                if n != k {
                    bad = Some((k, n));
                }
            }
        }
        Ok::<_, String>(bad)
    });
    ctx.transitions(lim + 3);
    match r {
        Err(m) | Ok(Err(m)) => ctx.violation(Violation::new("C10:panic(tracker)", format!("ChainTracker::step failed in a long run: {m}"), case)),
        Ok(Ok(Some((k, n)))) => ctx.violation(Violation::new(
            "C10:final-count-wrong(long run)",
            format!("after {k} updates the per-chain tracker reports count {n}: the reporter, which waits for a message whose count equals the total, would never see a run of {k} transitions finish"),
            case,
        )),
        Ok(Ok(None)) => ctx.outcome("long-run count exact across 2^24", 1),
    }
    if ctx.tier.thorough() {
        let total = (lim + 8) as usize;
        let case = json!({"layer": "long", "what": "run_progress of 2^24+8 transitions"});
        ctx.evals(1);
        ctx.state(hash_str(&case.to_string()));
        ctx.transitions(2 * total as u64);
        let want = catch(|| CSampler::new(1).run(total, 0).map(|a| hash_of(&a.iter().map(|x| x.to_bits()).collect::<Vec<u64>>())).map_err(|e| e.to_string()));
        let (got, hung) = with_bounded_reporter(|| catch(|| CSampler::new(1).run_progress(total, 0).map(|(a, _)| hash_of(&a.iter().map(|x| x.to_bits()).collect::<Vec<u64>>())).map_err(|e| e.to_string())));
        match (want, got) {
            _ if hung => ctx.violation(Violation::new("C10:hang(long run)", format!("run_progress({total}, 0): the reporter does not exit after the worker finished"), case)),
            (Ok(Ok(a)), Ok(Ok(b))) => {
                if a != b {
                    ctx.violation(Violation::new("C10:draws-differ(long run)", format!("run_progress({total}, 0) returns other draws than run"), case));
                } else {
                    ctx.outcome("long run_progress ok", 1);
                }
            }
            (a, b) => ctx.violation(Violation::new("C10:error(long run)", format!("run: {a:?}; run_progress: {b:?}"), case)),
        }
    }
}

pub fn run(ctx: &Ctx) {
    ctx.rule("layer 1 (E2): ALL schedules of the real run_progress (worker transitions, reporter iterations, stats-timer firings as choices) with at most the stated number of deviations from the default (workers to completion in index order, reporter last), N=1..3 chains direct (core and NUTS), arrival-order reduction for N in {5,6,7,11,16,48}; oracle per execution: returns, draws == run's, RunStats == RunStats::from(draws), no hang within ceil(N/5)+3 reporter iterations after the last worker. layer 2 (E5): BFS of the abstract reporter for every N=1..48 (invariants, progress, bounded exit) + conformance replay of model paths on the real reporter, state by state. layer 3: receiver dropped before / after transition k / after the call for every k; reporter killed at iteration 0..2; precision grid; long runs (tracker count exact across 2^24 updates; thorough: a real run_progress of 2^24+8 transitions). states = distinct reporter states (abstract + observed); transitions = scheduling decisions + model transitions; traces_validated = executions of the real protocol");
    let layers = std::env::var("MC_C10_LAYERS").unwrap_or_else(|_| "precision,long,receiver,reporter,direct,arrival,model".to_string());
    let on = |l: &str| layers.split(',').any(|x| x == l);
    let t0 = std::time::Instant::now();
    let mut lap = |name: &str| eprintln!("[C10] layer {name} done at {:.1}s", t0.elapsed().as_secs_f64());
    if on("precision") {
        // a pass-through handler: makes the reporter's 250 ms sleep a yield; it also bounds the number of reporter
        // iterations of one run_progress call (a reporter that never exits would otherwise hang the check itself)
        verif::set_sched(Some(Arc::new(bounded_handler)));
        precision_grid(ctx);
        verif::set_sched(None);
        lap("precision");
    }
    if on("long") {
        long_runs(ctx);
        lap("long");
    }
    if on("receiver") {
        receiver_faults(ctx);
        lap("receiver");
    }
    if on("reporter") {
        reporter_faults(ctx);
        lap("reporter");
    }
    if on("direct") {
        direct(ctx);
        lap("direct");
    }
    if on("arrival") {
        arrival(ctx);
        lap("arrival");
    }
    if on("model") {
        model_and_conformance(ctx);
        lap("model");
    }
    ctx.assume("sequentially consistent interleavings at hook granularity; real time is replaced by choices (sleep = yield, 1 s stats timer = binary choice); indicatif draws to a hidden target (no TTY)");
    ctx.assume("arrival-order reduction: a worker's only shared action is send on its own channel, so the iteration at which its final message first becomes visible is a complete canonical form of the schedule");
}

pub fn check_case(ctx: &Ctx, case: &Value) {
    let prefix: Vec<u32> = case["schedule"].as_array().map(|a| a.iter().map(|x| x.as_u64().unwrap_or(0) as u32).collect()).unwrap_or_default();
    match case["layer"].as_str() {
        Some("direct") => {
            let cfg = ExecCfg { n: case["n"].as_u64().unwrap_or(1) as usize, n_collect: case["n_collect"].as_u64().unwrap_or(4) as usize, n_discard: case["n_discard"].as_u64().unwrap_or(0) as usize, mode: Mode::Direct { timer: case["timer"].as_bool().unwrap_or(false) }, kill_reporter_at: None, idle_bound: 0, script: None, nuts: case["nuts"].as_bool().unwrap_or(false) };
            let want = expected_for(&cfg);
            let ex = execute(&cfg, &prefix);
            check_exec(ctx, &cfg, &want, &ex, case);
        }
        Some("arrival") => {
            let n = case["n"].as_u64().unwrap_or(5) as usize;
            let cfg = ExecCfg { n, n_collect: 4, n_discard: 0, mode: Mode::Arrival, kill_reporter_at: None, idle_bound: n.div_ceil(5) + 2, script: None, nuts: false };
            let want = expected_for(&cfg);
            let ex = execute(&cfg, &prefix);
            check_exec(ctx, &cfg, &want, &ex, case);
        }
        Some("conformance") => {
            let n = case["n"].as_u64().unwrap_or(1) as usize;
            let masks: Vec<u32> = case["masks"].as_array().map(|a| a.iter().map(|x| x.as_u64().unwrap_or(0) as u32).collect()).unwrap_or_default();
            conform_path(ctx, n, &masks);
        }
        Some("reporter-fault") => reporter_faults(ctx),
        Some("receiver-fault") => receiver_faults(ctx),
        Some("precision") => precision_grid(ctx),
        Some("long") => long_runs(ctx),
        _ => {}
    }
}
