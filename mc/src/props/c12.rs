//! C12 — ESS = M*N/tau with Geyer's initial positive monotone sequence, on both autocovariance paths.
use super::c11::{all_perms, case_with_layout, impl_split, with_layout, LAYOUT_NAMES};
use super::statsgen::*;
use crate::common::*;
use crate::refs::*;
use rayon::prelude::*;
use serde_json::{json, Value};
use std::sync::atomic::{AtomicU64, Ordering};
use std::sync::Mutex;

const MARGIN: f64 = 2e-5;

fn tau_tol(tau_ref: f64, slack: f64, cond: f64) -> f64 {
    2e-4 + 1e-3 * tau_ref.abs() + slack + 20.0 * 1.2e-7 * cond.min(1e9)
}

struct Conv {
    fails: [AtomicU64; 2],
    firsts: Mutex<[Vec<Violation>; 2]>,
    worst: Mutex<f64>,
}

fn tau_of(ess: f64, mn: f64) -> f64 {
    mn / ess
}

/// Compare the implementation's ESS for each parameter of `a`; returns the taus (impl).
fn check_values(ctx: &Ctx, conv: &Conv, a: &Arr3, case: &Value) -> Option<Vec<f64>> {
    ctx.evals(1);
    ctx.transitions(1);
    let (_, _, p) = arr3_dims(a);
    let (_, es) = match impl_split(a) {
        Ok(x) => x,
        Err(m) => {
            ctx.violation(Violation::new("C12:panic", format!("split_rhat_mean_ess panicked: {m}"), case.clone()));
            return None;
        }
    };
    let mut taus = vec![];
    for k in 0..p {
        let halves = half_chains(a, k);
        let n = halves[0].len();
        let st = split_stats(&halves, 0);
        if !(st.w > 0.0) || !st.varplus.is_finite() {
            ctx.outcome("degenerate(W=0)", 1);
            taus.push(f64::NAN);
            continue;
        }
        let got_ess = es[k] as f64;
        let mn = (halves.len() * n) as f64;
        let got_tau = tau_of(got_ess, mn);
        taus.push(got_tau);
        let mut ok_any = false;
        for ddof in 0..2 {
            if n < 2 && ddof == 1 {
                continue;
            }
            let r = ess_ref(&halves, ddof, MARGIN);
            let mut ok = false;
            let mut best = f64::INFINITY;
            for (tau, slack) in r.cands.iter() {
                let tol = tau_tol(*tau, *slack, st.cond);
                let err = (got_tau - tau).abs();
                // tau == 0 => ESS infinite; compare on tau only (finite), ESS sign/inf follows
                if err <= tol {
                    ok = true;
                }
                best = best.min(err / tol);
            }
            if ddof == 0 {
                let mut w = conv.worst.lock().unwrap();
                if best.is_finite() && best > *w {
                    *w = best;
                }
                if r.ambiguous {
                    ctx.outcome("cut-inside-margin(set-valued reference)", 1);
                }
                ctx.outcome(if n <= 100 { "path:brute-force" } else { "path:fft" }, 1);
            }
            ok_any |= ok;
            if !ok {
                conv.fails[ddof].fetch_add(1, Ordering::Relaxed);
                let mut g = conv.firsts.lock().unwrap();
                if g[ddof].len() < 3 {
                    g[ddof].push(Violation::new(
                        "C12:ess-value",
                        format!(
                            "ESS of parameter {k}: implementation {got_ess} (tau {got_tau}), reference tau candidates {:?} (M*N={mn}, half length {n}, ddof={ddof})",
                            r.cands
                        ),
                        case.clone(),
                    ));
                }
            }
        }
        ctx.outcome(if ok_any { "value-match" } else { "value-mismatch(both conventions)" }, 1);
    }
    Some(taus)
}

/// The `ess_from_chainstats` entry point: the same ESS formula, with W and var+ taken from per-chain statistics
/// (unbiased per-chain variances, as `ChainTracker::stats` reports them) instead of being recomputed from the array.
/// Reference: `ess_ref_with` on the unsplit chains with W / var+ derived in f64 from the very f32 statistics handed in.
fn check_chainstats(ctx: &Ctx, a: &Arr3, case: &Value) {
    let (m, n, p) = arr3_dims(a);
    if m < 2 || n < 4 {
        return;
    }
    ctx.evals(1);
    ctx.transitions(1);
    let chains_of = |k: usize| -> Vec<Vec<f64>> { a.iter().map(|ch| ch.iter().map(|r| r[k] as f64).collect()).collect() };
    let mut means = vec![vec![0f32; p]; m];
    let mut sm2s = vec![vec![0f32; p]; m];
    for k in 0..p {
        for (c, ch) in chains_of(k).iter().enumerate() {
            let mu = ch.iter().sum::<f64>() / n as f64;
            means[c][k] = mu as f32;
            sm2s[c][k] = (ch.iter().map(|x| (x - mu) * (x - mu)).sum::<f64>() / (n as f64 - 1.0)) as f32;
        }
    }
    let stats: Vec<mini_mcmc::stats::ChainStats> = (0..m)
        .map(|c| mini_mcmc::stats::ChainStats { n: n as u64, p_accept: 0.5, mean: ndarray::Array1::from_vec(means[c].clone()), sm2: ndarray::Array1::from_vec(sm2s[c].clone()) })
        .collect();
    let refs: Vec<&mini_mcmc::stats::ChainStats> = stats.iter().collect();
    let arr = ndarray::Array3::from_shape_fn((m, n, p), |(c, t, k)| a[c][t][k]);
    let es = match catch(|| mini_mcmc::stats::ess_from_chainstats(arr.view(), &refs).to_vec()) {
        Ok(x) => x,
        Err(msg) => {
            ctx.violation(Violation::new("C12:panic(chainstats)", format!("ess_from_chainstats panicked: {msg}"), case.clone()));
            return;
        }
    };
    for k in 0..p {
        let chains = chains_of(k);
        let w = (0..m).map(|c| sm2s[c][k] as f64).sum::<f64>() / m as f64;
        let gm = (0..m).map(|c| means[c][k] as f64).sum::<f64>() / m as f64;
        let between = (0..m).map(|c| (means[c][k] as f64 - gm).powi(2)).sum::<f64>() / (m as f64 - 1.0);
        let varplus = between + w * (n as f64 - 1.0) / n as f64;
        if !(w > 0.0) || !varplus.is_finite() {
            ctx.outcome("chainstats:degenerate(W=0)", 1);
            continue;
        }
        let cond = (0..m).map(|c| (means[c][k] as f64).abs()).fold(0.0, f64::max) / w.sqrt();
        let r = ess_ref_with(&chains, w, varplus, 1.0, MARGIN);
        let mn = (m * n) as f64;
        let got_ess = es[k] as f64;
        let got_tau = tau_of(got_ess, mn);
        let ok = r.cands.iter().any(|(tau, slack)| (got_tau - tau).abs() <= tau_tol(*tau, *slack, cond));
        ctx.outcome(if ok { "chainstats:value-match" } else { "chainstats:value-mismatch" }, 1);
        if !ok {
            ctx.violation(Violation::new(
                "C12:ess-value(chainstats)",
                format!("ess_from_chainstats, parameter {k}: implementation {got_ess} (tau {got_tau}), reference tau candidates {:?} (M*N={mn}, W={w}, var+={varplus})", r.cands),
                case.clone(),
            ));
        }
    }
}

fn close_tau(a: f64, b: f64, tol: f64) -> bool {
    if a.is_nan() && b.is_nan() {
        return true;
    }
    (a - b).abs() <= tol
}

fn metamorphic(ctx: &Ctx, conv: &Conv, a: &Arr3, case: &Value) {
    let (c, _n, p) = arr3_dims(a);
    let Some(base) = taus_only(a) else { return };
    let st0 = split_stats(&half_chains(a, 0), 0);
    if !(st0.w > 0.0) {
        return;
    }
    // A transformed input may resolve an in-margin Geyer cut differently; only compare when the
    // reference says no cut of the base input lies inside the margin.
    let amb = (0..p).any(|k| ess_ref(&half_chains(a, k), 0, MARGIN * 5.0).ambiguous);
    if amb {
        ctx.outcome("metamorphic-skipped(ambiguous cut)", 1);
        return;
    }
    let _ = conv;
    let mut variants: Vec<(String, Arr3)> = vec![];
    for (sc, sh) in [(2.0f32, 0.0f32), (0.25, 0.0), (-3.0, 0.0), (1.0, 10.0), (-1.0, -7.0), (2f32.powi(-12), 0.0), (2f32.powi(-20), 0.0), (2f32.powi(-40), 0.0), (2f32.powi(14), 0.0), (2f32.powi(40), 0.0)] {
        let maxabs = a.iter().flatten().flatten().fold(0.0f64, |m, x| m.max(x.abs() as f64));
        let (new_max, new_sd) = ((sc.abs() as f64) * maxabs + sh.abs() as f64, (sc.abs() as f64) * st0.w.sqrt());
        if new_max > 1e12 || new_sd < 1e-12 || new_max / new_sd > 3e3 {
            ctx.outcome("metamorphic variant skipped (not representable in f32 statistics)", 1);
            continue;
        }
        variants.push((format!("affine x->{sc}x+{sh}"), a.iter().map(|ch| ch.iter().map(|r| r.iter().map(|x| sc * x + sh).collect()).collect()).collect()));
    }
    let perms: Vec<Vec<usize>> = if c <= 3 { all_perms(c) } else { vec![(0..c).rev().collect()] };
    for perm in perms {
        variants.push((format!("chain permutation {perm:?}"), perm.iter().map(|i| a[*i].clone()).collect()));
    }
    // time reversal (only meaningful for even draws: with odd draws the dropped middle stays the middle, also fine)
    variants.push(("time reversal".to_string(), a.iter().map(|ch| ch.iter().rev().cloned().collect()).collect()));
    for (name, b) in variants {
        ctx.evals(1);
        ctx.transitions(1);
        let Some(t2) = taus_only(&b) else { continue };
        for k in 0..p {
            let stb = split_stats(&half_chains(&b, k), 0);
            let tol = 3.0 * tau_tol(base[k], 0.0, st0.cond.max(stb.cond));
            if !close_tau(base[k], t2[k], tol) {
                ctx.violation(Violation::new(
                    "C12:metamorphic",
                    format!("tau of parameter {k} changes under {name}: {} vs {}", base[k], t2[k]),
                    case.clone(),
                ));
            }
        }
    }
}

fn taus_only(a: &Arr3) -> Option<Vec<f64>> {
    let (_, _, p) = arr3_dims(a);
    let (_, es) = impl_split(a).ok()?;
    Some((0..p).map(|k| {
        let h = half_chains(a, k);
        (h.len() * h[0].len()) as f64 / es[k] as f64
    }).collect())
}

/// Path equivalence, decided differentially: the same series at half-length 100 (brute force) and,
/// padded by one extra draw per half, 101 (FFT), each against the reference — plus the two
/// private paths are forced onto the *same* data by embedding it in arrays on either side of the switch.
fn path_switch(ctx: &Ctx, conv: &Conv) {
    for seed in 0..ctx.tier.pick(6u64, 24) {
        for phi in [0.0, 0.7, -0.6] {
            for (chains, half) in [(1usize, 100usize), (1, 101), (2, 100), (2, 101), (1, 99), (1, 128), (1, 129), (3, 150)] {
                let sp = FamSpec { kind: if phi == 0.0 { "iid" } else if phi > 0.0 { "ar1" } else { "anti" }, chains, draws: 2 * half, params: 1, phi, loc: 0.5, scale: 1.5, seed: 9000 + seed };
                let a = sp.build();
                let case = json!({"family": sp.to_json()});
                ctx.state(hash_str(&sp.name()));
                check_values(ctx, conv, &a, &case);
            }
        }
    }
}

/// Sanity bands (fixed enumerated members only; declared non-generalising).
fn bands(ctx: &Ctx) {
    for seed in 0..ctx.tier.pick(3u64, 8) {
        for chains in [2usize, 4] {
            let n = ctx.tier.pick(2000usize, 5000);
            for (kind, phi) in [("iid", 0.0), ("ar1", 0.5), ("ar1", 0.9)] {
                let sp = FamSpec { kind, chains, draws: n, params: 1, phi, loc: 0.0, scale: 1.0, seed: 500 + seed };
                let a = sp.build();
                let case = json!({"family": sp.to_json(), "band": true});
                ctx.evals(1);
                ctx.transitions(1);
                let Ok((_, es)) = impl_split(&a) else { continue };
                let mn = (chains * 2 * (n / 2)) as f64;
                let expect = mn * (1.0 - phi) / (1.0 + phi);
                let ratio = es[0] as f64 / expect;
                let (lo, hi) = if phi == 0.0 { (0.8, 1.2) } else { (0.65, 1.45) };
                ctx.outcome("band-checked", 1);
                if !(ratio > lo && ratio < hi) {
                    ctx.violation(Violation::new(
                        "C12:band",
                        format!("ESS {} of {} is not about M*N(1-phi)/(1+phi) = {expect:.0} (ratio {ratio:.3})", es[0], sp.name()),
                        case,
                    ));
                }
            }
        }
    }
}

pub fn run(ctx: &Ctx) {
    let conv = Conv { fails: [AtomicU64::new(0), AtomicU64::new(0)], firsts: Mutex::new([vec![], vec![]]), worst: Mutex::new(0.0) };
    ctx.rule("(i) ALL arrays over {-1,0,1,2} for the listed small shapes; (ii) fixed structured families (iid, AR(1) phi in {-0.9,-0.5,0.5,0.9,0.99}, trend, bimodal, switching, far, constant parameter) over the listed shapes, half-lengths on both sides of the 100-row switch and several FFT paddings; (iii) metamorphic variants (affine, permutations, time reversal; every member <= 600 draws again in 4 other memory layouts: Fortran order, two axis-permuted views, reversed strided view) on members whose Geyer cut is not inside the margin; (iv) sanity bands on fixed iid / AR(1) members; (v) the `ess_from_chainstats` entry point (W, var+ from per-chain statistics with unbiased variances) on the small exhaustive shapes with >= 2 chains and on the family members, against the same formula evaluated in f64 from the statistics handed in. Compared quantity: tau = M*N/ESS against the f64 reference (direct O(n^2) autocovariance), set-valued where a pair sum is within 2e-5 of the cut. non-trivial = W>0; states = distinct inputs; transitions = implementation evaluations");
    let shapes = exhaustive_shapes(ctx.tier.thorough());
    let shapes: Vec<_> = shapes.into_iter().filter(|s| n_arrays(*s) <= ctx.tier.pick(1 << 16, 1 << 24)).collect();
    ctx.extra("exhaustive_shapes", json!(shapes.iter().map(|s| format!("{}x{}x{} ({} arrays)", s.0, s.1, s.2, n_arrays(*s))).collect::<Vec<_>>()));
    for shape in shapes.iter() {
        let total = n_arrays(*shape);
        let chunk = 4096u64;
        (0..total.div_ceil(chunk)).into_par_iter().for_each(|ci| {
            let mut hs = vec![];
            let mut nt = vec![];
            for idx in ci * chunk..((ci + 1) * chunk).min(total) {
                let a = decode(*shape, idx);
                let case = json!({"exhaustive": {"shape": [shape.0, shape.1, shape.2], "index": idx}});
                let h = hash_of(&(shape.0, shape.1, shape.2, idx));
                hs.push(h);
                if let Some(t) = check_values(ctx, &conv, &a, &case) {
                    if t.iter().any(|x| x.is_finite()) {
                        nt.push(h);
                    }
                }
                if total <= 65536 || ctx.tier.thorough() && total <= 1 << 20 {
                    check_chainstats(ctx, &a, &json!({"chainstats": case.clone()}));
                }
                if total <= 4096 || ctx.tier.thorough() && total <= 65536 {
                    for l in 1..LAYOUT_NAMES.len() as u8 {
                        with_layout(l, || check_values(ctx, &conv, &a, &case_with_layout(&case, l)));
                    }
                }
            }
            ctx.states_bulk(hs);
            ctx.distinct_bulk(nt);
        });
    }
    let specs = family_specs(ctx.tier.thorough(), true);
    ctx.extra("family_members", json!(specs.len()));
    specs.par_iter().for_each(|sp| {
        let a = sp.build();
        let case = json!({"family": sp.to_json()});
        let h = hash_str(&sp.name());
        ctx.state(h);
        if let Some(t) = check_values(ctx, &conv, &a, &case) {
            ctx.distinct(h);
            if ctx.n_samples() < 6 {
                ctx.sample(json!({"family_member": sp.name(), "tau_impl": jfs(&t)}));
            }
        }
        if sp.draws <= ctx.tier.pick(600, 5000) {
            check_chainstats(ctx, &a, &json!({"chainstats": case.clone()}));
        }
        if sp.draws <= 600 {
            metamorphic(ctx, &conv, &a, &case);
            // the same logical array in every other memory layout (Fortran order, permuted axes, reversed strided view):
            // the full value oracle again on what the implementation returns for that view
            for l in 1..LAYOUT_NAMES.len() as u8 {
                with_layout(l, || check_values(ctx, &conv, &a, &case_with_layout(&case, l)));
                ctx.outcome("layout-variant-checked", 1);
            }
        }
    });
    path_switch(ctx, &conv);
    bands(ctx);
    let f0 = conv.fails[0].load(Ordering::Relaxed);
    let f1 = conv.fails[1].load(Ordering::Relaxed);
    let which = if f0 <= f1 { 0 } else { 1 };
    ctx.extra("divisor_convention_matched", json!(if which == 0 { "n (ddof 0)" } else { "n-1 (ddof 1)" }));
    ctx.extra("mismatches_under_ddof0", json!(f0));
    ctx.extra("mismatches_under_ddof1", json!(f1));
    ctx.extra("worst_error_over_tolerance", json!(*conv.worst.lock().unwrap()));
    for v in conv.firsts.lock().unwrap()[which].iter() {
        ctx.violation(v.clone());
    }
    if ctx.outcome_count("chainstats:value-match") + ctx.outcome_count("chainstats:value-mismatch") == 0 {
        ctx.machinery_error("vacuity guard: the ess_from_chainstats layer decided nothing");
    }
    if ctx.outcome_count("path:brute-force") == 0 || ctx.outcome_count("path:fft") == 0 {
        ctx.machinery_error("vacuity guard: both autocovariance paths must be exercised");
    }
    ctx.assume("large shapes are fixed enumerated families, not exhaustive; tolerance on tau: 2e-4 + 1e-3*|tau| + conditioning term; negative or huge ESS is allowed by the statement's formula (tau near 0)");
    ctx.assume("sanity bands (iid, AR(1) phi 0.5/0.9) hold for the listed members only");
}

pub fn check_case(ctx: &Ctx, case: &Value) {
    if let Some(inner) = case.get("chainstats") {
        let a = if let Some(e) = inner.get("exhaustive") {
            let sh = &e["shape"];
            decode((sh[0].as_u64().unwrap() as usize, sh[1].as_u64().unwrap() as usize, sh[2].as_u64().unwrap() as usize), e["index"].as_u64().unwrap())
        } else if let Some(sp) = inner.get("family").and_then(FamSpec::from_json) {
            sp.build()
        } else {
            return;
        };
        check_chainstats(ctx, &a, case);
        return;
    }
    let conv = Conv { fails: [AtomicU64::new(0), AtomicU64::new(0)], firsts: Mutex::new([vec![], vec![]]), worst: Mutex::new(0.0) };
    let a = if let Some(e) = case.get("exhaustive") {
        let sh = &e["shape"];
        decode((sh[0].as_u64().unwrap() as usize, sh[1].as_u64().unwrap() as usize, sh[2].as_u64().unwrap() as usize), e["index"].as_u64().unwrap())
    } else if let Some(sp) = case.get("family").and_then(FamSpec::from_json) {
        sp.build()
    } else {
        return;
    };
    let l = case["layout"].as_u64().unwrap_or(0) as u8;
    with_layout(l, || check_values(ctx, &conv, &a, case));
    if l == 0 {
        metamorphic(ctx, &conv, &a, case);
    }
    let f0 = conv.fails[0].load(Ordering::Relaxed);
    let f1 = conv.fails[1].load(Ordering::Relaxed);
    let which = if f0 <= f1 { 0 } else { 1 };
    for v in conv.firsts.lock().unwrap()[which].iter() {
        ctx.violation(v.clone());
    }
}
