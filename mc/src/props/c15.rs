//! C15 — built-in densities, gradients and the proposal density match their definitions.
use crate::burnutil::*;
use crate::common::*;
use burn::prelude::*;
use burn::tensor::backend::AutodiffBackend;
use mini_mcmc::distributions::{
    BatchedGradientTarget, DiffableGaussian2D, Gaussian2D, GradientTarget, IsotropicGaussian, Normalized, Proposal, Rosenbrock2D, RosenbrockND, Target,
};
use ndarray::{arr1, arr2};
use num_traits::Float;
use serde_json::{json, Value};
use std::f64::consts::PI;

const TOL32: f64 = 3e-5;
const TOL64: f64 = 1e-11;

struct G2 {
    mean: [f64; 2],
    cov: [[f64; 2]; 2],
}
impl G2 {
    fn det(&self) -> f64 {
        self.cov[0][0] * self.cov[1][1] - self.cov[0][1] * self.cov[1][0]
    }
    fn inv(&self) -> [[f64; 2]; 2] {
        let d = self.det();
        [[self.cov[1][1] / d, -self.cov[0][1] / d], [-self.cov[1][0] / d, self.cov[0][0] / d]]
    }
    /// (quadratic form, sum of |terms|)
    fn quad(&self, x: &[f64]) -> (f64, f64) {
        let iv = self.inv();
        let d = [x[0] - self.mean[0], x[1] - self.mean[1]];
        let mut q = 0.0;
        let mut s = 0.0;
        for i in 0..2 {
            for j in 0..2 {
                let t = d[i] * iv[i][j] * d[j];
                q += t;
                s += t.abs();
            }
        }
        (q, s + x[0].abs() * 1e-3 + x[1].abs() * 1e-3)
    }
    fn unnorm(&self, x: &[f64]) -> f64 {
        -0.5 * self.quad(x).0
    }
    /// cancellation factor of the 2x2 determinant: an evaluation in precision eps can only deliver
    /// the inverse covariance to eps * kdet relative accuracy
    fn kdet(&self) -> f64 {
        ((self.cov[0][0] * self.cov[1][1]).abs() + (self.cov[0][1] * self.cov[1][0]).abs()) / self.det().abs()
    }
    fn norm_const(&self) -> f64 {
        -(2.0 * PI).ln() - 0.5 * self.det().ln()
    }
    fn grad(&self, x: &[f64]) -> ([f64; 2], f64) {
        let iv = self.inv();
        let d = [self.mean[0] - x[0], self.mean[1] - x[1]];
        let g = [iv[0][0] * d[0] + iv[0][1] * d[1], iv[1][0] * d[0] + iv[1][1] * d[1]];
        let s = (iv[0][0] * d[0]).abs() + (iv[0][1] * d[1]).abs() + (iv[1][0] * d[0]).abs() + (iv[1][1] * d[1]).abs();
        (g, s)
    }
}

fn covs() -> Vec<[[f64; 2]; 2]> {
    // I, diag(1e-2,1e2), correlated, condition number 1e4 rotated by 30 degrees
    let (c, s) = ((PI / 6.0).cos(), (PI / 6.0).sin());
    let (l1, l2) = (100.0, 0.01);
    let rot = [[c * c * l1 + s * s * l2, c * s * (l1 - l2)], [c * s * (l1 - l2), s * s * l1 + c * c * l2]];
    vec![[[1.0, 0.0], [0.0, 1.0]], [[0.01, 0.0], [0.0, 100.0]], [[4.0, 2.0], [2.0, 3.0]], rot, [[0.5, -0.3], [-0.3, 2.0]]]
}

fn lattice(g: &G2) -> Vec<Vec<f64>> {
    let sx = g.cov[0][0].sqrt();
    let sy = g.cov[1][1].sqrt();
    let mut out = vec![];
    for i in -3i32..=3 {
        for j in -3i32..=3 {
            out.push(vec![g.mean[0] + i as f64 * 0.9 * sx, g.mean[1] + j as f64 * 0.9 * sy]);
        }
    }
    out
}

fn close(ctx: &Ctx, key: &str, what: &str, got: f64, want: f64, tol: f64, case: &Value) -> bool {
    ctx.transitions(1);
    if !((got - want).abs() <= tol) {
        ctx.violation(Violation::new(key, format!("{what}: got {got}, definition gives {want} (tolerance {tol:e})"), case.clone()));
        false
    } else {
        true
    }
}

/// Gaussian2D<T> (ndarray-based): Normalized::logp, Target::unnorm_logp
fn gaussian2d<T: ndarray::NdFloat>(ctx: &Ctx, ty: &str, g: &G2, tol_rel: f64) {
    let f = |x: f64| T::from(x).unwrap();
    let gd = Gaussian2D::<T> { mean: arr1(&[f(g.mean[0]), f(g.mean[1])]), cov: arr2(&[[f(g.cov[0][0]), f(g.cov[0][1])], [f(g.cov[1][0]), f(g.cov[1][1])]]) };
    // the reference sees the same (possibly f32-rounded) parameters
    let r = |x: f64| T::from(x).unwrap().to_f64().unwrap();
    let gr = G2 { mean: [r(g.mean[0]), r(g.mean[1])], cov: [[r(g.cov[0][0]), r(g.cov[0][1])], [r(g.cov[1][0]), r(g.cov[1][1])]] };
    let mut diffs = vec![];
    for x in lattice(g) {
        let xr: Vec<f64> = x.iter().map(|v| r(*v)).collect();
        let case = json!({"target": "Gaussian2D", "ty": ty, "mean": g.mean, "cov": g.cov, "x": xr});
        let xt: Vec<T> = x.iter().map(|v| f(*v)).collect();
        ctx.evals(1);
        let (q, s) = gr.quad(&xr);
        let tol = tol_rel * gr.kdet() * (0.5 * s + gr.norm_const().abs() + 1.0);
        let Ok((un, no)) = catch(|| (gd.unnorm_logp(&xt).to_f64().unwrap(), gd.logp(&xt).to_f64().unwrap())) else {
            ctx.violation(Violation::new("C15:panic", "Gaussian2D evaluation panicked", case));
            continue;
        };
        close(ctx, "C15:gaussian2d-unnorm", "Gaussian2D::unnorm_logp", un, -0.5 * q, tol, &case);
        close(ctx, "C15:gaussian2d-norm", "Gaussian2D::logp (normalised)", no, -0.5 * q + gr.norm_const(), tol, &case);
        ctx.sample_tagged("Gaussian2D point", || json!({"input": case.clone(), "unnorm_logp": un, "logp": no, "closed_form_unnorm": -0.5 * q, "tolerance": tol}));
        diffs.push(no - un);
        ctx.distinct(hash_f64s(ty, &[xr[0], xr[1], g.cov[0][0], g.cov[0][1], g.cov[1][1], g.mean[0], g.mean[1]]));
        ctx.state(hash_f64s(ty, &[xr[0], xr[1], g.cov[0][0], g.cov[0][1], g.cov[1][1], g.mean[0], g.mean[1]]));
    }
    // normalised - unnormalised is one constant over the lattice
    let c0 = gr.norm_const();
    let tolc = tol_rel * gr.kdet() * (c0.abs() + 50.0) * 40.0;
    for d in diffs {
        if !((d - c0).abs() <= tolc) {
            ctx.violation(Violation::new("C15:gaussian2d-constant", format!("normalised - unnormalised = {d}, constant -ln(2pi) - 0.5 ln|Sigma| = {c0}"), json!({"target": "Gaussian2D", "ty": ty, "mean": g.mean, "cov": g.cov})));
            break;
        }
    }
}

/// DiffableGaussian2D<T> on backend B: batched, single, gradients.
fn diffable<T, B>(ctx: &Ctx, ty: &str, g: &G2)
where
    T: Float + burn::tensor::ElementConversion + std::fmt::Debug + burn::tensor::Element + num_traits::FloatConst,
    B: AutodiffBackend,
{
    let f = |x: f64| T::from(x).unwrap();
    let tgt = DiffableGaussian2D::<T>::new([f(g.mean[0]), f(g.mean[1])], [[f(g.cov[0][0]), f(g.cov[0][1])], [f(g.cov[1][0]), f(g.cov[1][1])]]);
    let pts = lattice(g);
    let tol_rel = TOL32; // from_floats rounds parameters to f32 on every backend
    for bs in [1usize, 2, 3, 64] {
        for chunk in pts.chunks(bs).take(if bs == 64 { 1 } else { 6 }) {
            let mut batch: Vec<Vec<f64>> = chunk.to_vec();
            while batch.len() < bs {
                batch.push(pts[batch.len() % pts.len()].clone());
            }
            let case = json!({"target": "DiffableGaussian2D", "ty": ty, "mean": g.mean, "cov": g.cov, "batch": batch});
            ctx.evals(1);
            let res = catch(|| batch_logp_and_grad::<B>(|p| <DiffableGaussian2D<T> as BatchedGradientTarget<T, B>>::unnorm_logp_batch(&tgt, p), &batch));
            let Ok((lps, grads)) = res else {
                ctx.violation(Violation::new("C15:panic", "DiffableGaussian2D batched evaluation panicked", case));
                continue;
            };
            for (i, x) in batch.iter().enumerate() {
                let (q, s) = g.quad(x);
                let tol = tol_rel * g.kdet() * (0.5 * s + g.norm_const().abs() + 1.0) * 4.0;
                close(ctx, "C15:diffable-batch-logp", &format!("DiffableGaussian2D batched log-density row {i} of {bs}"), lps[i], -0.5 * q + g.norm_const(), tol, &case);
                let (gr, gs) = g.grad(x);
                for k in 0..2 {
                    close(ctx, "C15:diffable-batch-grad", &format!("batched gradient row {i} coord {k}"), grads[i][k], gr[k], tol_rel * g.kdet() * 4.0 * (gs + 1.0), &case);
                }
                // single-point agreement, row by row
                let single = catch(|| {
                    let (lp, gd) = <DiffableGaussian2D<T> as GradientTarget<T, B>>::unnorm_logp_and_grad(&tgt, t1::<B>(x));
                    (v(&lp)[0], v(&gd))
                });
                match single {
                    Ok((lp1, g1)) => {
                        close(ctx, "C15:diffable-single-vs-batch", &format!("single-point vs batched log-density (row {i})"), lp1, lps[i], tol, &case);
                        for k in 0..2 {
                            close(ctx, "C15:diffable-single-grad", &format!("single-point gradient coord {k}"), g1[k], gr[k], tol_rel * g.kdet() * 4.0 * (gs + 1.0), &case);
                        }
                    }
                    Err(m) => ctx.violation(Violation::new("C15:panic", format!("single-point evaluation panicked: {m}"), case.clone())),
                }
            }
            ctx.distinct(hash_str(&case.to_string()));
            ctx.state(hash_str(&case.to_string()));
        }
    }
}

fn rosen<T, B>(ctx: &Ctx, ty: &str, tol_rel: f64)
where
    T: Float + burn::tensor::Element,
    B: AutodiffBackend,
{
    for (a, b) in [(1.0, 100.0), (0.5, 3.0), (-1.0, 10.0)] {
        let tgt = Rosenbrock2D::<T> { a: T::from(a).unwrap(), b: T::from(b).unwrap() };
        let mut pts = vec![];
        for i in -3i32..=3 {
            for j in -3i32..=3 {
                pts.push(vec![i as f64 * 0.6 + 0.1, j as f64 * 0.7 - 0.2]);
            }
        }
        for bs in [1usize, 3, 49] {
            let batch: Vec<Vec<f64>> = pts.iter().take(bs.max(1)).cloned().collect();
            let batch = if bs == 3 { pts[10..13].to_vec() } else { batch };
            let case = json!({"target": "Rosenbrock2D", "ty": ty, "a": a, "b": b, "batch": batch});
            ctx.evals(1);
            let Ok((lps, grads)) = catch(|| batch_logp_and_grad::<B>(|p| <Rosenbrock2D<T> as BatchedGradientTarget<T, B>>::unnorm_logp_batch(&tgt, p), &batch)) else {
                ctx.violation(Violation::new("C15:panic", "Rosenbrock2D batched evaluation panicked", case));
                continue;
            };
            for (i, x) in batch.iter().enumerate() {
                let (x0, y0) = (x[0], x[1]);
                let t1v = (a - x0) * (a - x0);
                let t2v = b * (y0 - x0 * x0) * (y0 - x0 * x0);
                let want = -(t1v + t2v);
                let scale = t1v.abs() + t2v.abs() + b * (y0 * y0 + x0.powi(4)) + 1.0;
                close(ctx, "C15:rosenbrock-logp", &format!("Rosenbrock2D batched log-density row {i}"), lps[i], want, tol_rel * scale, &case);
                let gx = 2.0 * (a - x0) + 4.0 * b * x0 * (y0 - x0 * x0);
                let gy = -2.0 * b * (y0 - x0 * x0);
                let gs = 2.0 * (a.abs() + x0.abs()) + 4.0 * b * x0.abs() * (y0.abs() + x0 * x0) + 2.0 * b * (y0.abs() + x0 * x0) + 1.0;
                close(ctx, "C15:rosenbrock-grad", &format!("Rosenbrock2D gradient d/dx row {i}"), grads[i][0], gx, tol_rel * gs, &case);
                close(ctx, "C15:rosenbrock-grad", &format!("Rosenbrock2D gradient d/dy row {i}"), grads[i][1], gy, tol_rel * gs, &case);
                if let Ok((lp1, g1)) = catch(|| {
                    let (lp, gd) = <Rosenbrock2D<T> as GradientTarget<T, B>>::unnorm_logp_and_grad(&tgt, t1::<B>(x));
                    (v(&lp)[0], v(&gd))
                }) {
                    close(ctx, "C15:rosenbrock-single", "Rosenbrock2D single-point log-density", lp1, want, tol_rel * scale, &case);
                    close(ctx, "C15:rosenbrock-single", "Rosenbrock2D single-point d/dx", g1[0], gx, tol_rel * gs, &case);
                    close(ctx, "C15:rosenbrock-single", "Rosenbrock2D single-point d/dy", g1[1], gy, tol_rel * gs, &case);
                }
            }
            ctx.distinct(hash_str(&case.to_string()));
            ctx.state(hash_str(&case.to_string()));
        }
    }
    // RosenbrockND, D = 2..5
    for d in 2usize..=5 {
        let tgt = RosenbrockND {};
        let batch: Vec<Vec<f64>> = (0..4).map(|r| (0..d).map(|k| ((r * 7 + k * 3) % 11) as f64 * 0.25 - 1.2).collect()).collect();
        let case = json!({"target": "RosenbrockND", "ty": ty, "d": d, "batch": batch});
        ctx.evals(1);
        let Ok((lps, grads)) = catch(|| batch_logp_and_grad::<B>(|p| <RosenbrockND as BatchedGradientTarget<T, B>>::unnorm_logp_batch(&tgt, p), &batch)) else {
            ctx.violation(Violation::new("C15:panic", "RosenbrockND evaluation panicked", case));
            continue;
        };
        for (i, x) in batch.iter().enumerate() {
            let mut want = 0.0;
            let mut scale = 1.0;
            let mut g = vec![0.0; d];
            for k in 0..d - 1 {
                let r = x[k + 1] - x[k] * x[k];
                want -= 100.0 * r * r + (1.0 - x[k]) * (1.0 - x[k]);
                scale += 100.0 * (x[k + 1] * x[k + 1] + x[k].powi(4)) + 1.0 + x[k] * x[k];
                g[k] += 400.0 * x[k] * r + 2.0 * (1.0 - x[k]);
                g[k + 1] += -200.0 * r;
            }
            close(ctx, "C15:rosenbrocknd-logp", &format!("RosenbrockND (D={d}) log-density row {i}"), lps[i], want, tol_rel * scale, &case);
            for k in 0..d {
                close(ctx, "C15:rosenbrocknd-grad", &format!("RosenbrockND (D={d}) gradient coord {k} row {i}"), grads[i][k], g[k], tol_rel * scale * 4.0, &case);
            }
        }
    }
}

fn isotropic<T>(ctx: &Ctx, ty: &str, tol_rel: f64)
where
    T: Float + std::ops::AddAssign + std::fmt::Debug,
    rand_distr::StandardNormal: rand_distr::Distribution<T>,
{
    let f = |x: f64| T::from(x).unwrap();
    for std in [1e-3, 0.5, 1.0, 2.0, 1e3] {
        for d in [1usize, 2, 3, 32] {
            let prop = IsotropicGaussian::<T>::new(f(std));
            let stdr = f(std).to_f64().unwrap();
            for (pi, delta) in [0.0, 0.3, -1.7, 2.5].iter().enumerate() {
                let from: Vec<f64> = (0..d).map(|k| (k as f64 * 0.37).sin()).collect();
                let to: Vec<f64> = from.iter().enumerate().map(|(k, x)| x + delta * stdr * if k % 2 == 0 { 1.0 } else { -0.5 }).collect();
                let (ft, tt): (Vec<T>, Vec<T>) = (from.iter().map(|x| f(*x)).collect(), to.iter().map(|x| f(*x)).collect());
                let (fr, tr): (Vec<f64>, Vec<f64>) = (ft.iter().map(|x| x.to_f64().unwrap()).collect(), tt.iter().map(|x| x.to_f64().unwrap()).collect());
                let case = json!({"proposal": "IsotropicGaussian", "ty": ty, "std": std, "d": d, "from": fr, "to": tr});
                ctx.evals(1);
                let sq: f64 = fr.iter().zip(tr.iter()).map(|(a, b)| (b - a) * (b - a)).sum();
                let want = -(d as f64) / 2.0 * (2.0 * PI * stdr * stdr).ln() - sq / (2.0 * stdr * stdr);
                let scale = (d as f64) / 2.0 * (2.0 * PI * stdr * stdr).ln().abs() + sq / (2.0 * stdr * stdr) + 1.0;
                let got = prop.logp(&ft, &tt).to_f64().unwrap();
                let key = if pi == 0 { "C15:isotropic-logp-normalisation" } else { "C15:isotropic-logp" };
                // a wrong constant shows at every point; key it once by the zero-displacement case
                let ok = close(ctx, "C15:isotropic-logp-normalisation", "IsotropicGaussian::logp(from,to) vs -d/2 ln(2 pi s^2) - |to-from|^2/(2 s^2)", got, want, tol_rel * scale * 4.0, &case);
                let _ = (key, ok);
                ctx.sample_tagged("IsotropicGaussian::logp", || json!({"input": case.clone(), "logp": got, "definition": want}));
                let back = prop.logp(&tt, &ft).to_f64().unwrap();
                close(ctx, "C15:isotropic-symmetry", "IsotropicGaussian::logp symmetric in its arguments", back, got, tol_rel * scale, &case);
                ctx.distinct(hash_str(&case.to_string()));
                ctx.state(hash_str(&case.to_string()));
            }
        }
        // integral of exp(logp) over a trapezoid lattice ~ 1 for d = 1, 2 (wide tolerance; catches a wrong normalising constant)
        let prop = IsotropicGaussian::<T>::new(f(std));
        let stdr = f(std).to_f64().unwrap();
        let h = stdr * 0.05;
        let m = 200i32; // +-10 sd
        let mut i1 = 0.0;
        for i in -m..=m {
            i1 += prop.logp(&[f(0.0)], &[f(i as f64 * h)]).to_f64().unwrap().exp() * h;
        }
        let case = json!({"proposal": "IsotropicGaussian", "ty": ty, "std": std, "integral": 1});
        close(ctx, "C15:isotropic-logp-normalisation", "integral of exp(logp) over R (trapezoid, d=1)", i1, 1.0, 2e-3, &case);
        let h2 = stdr * 0.2;
        let m2 = 40i32;
        let mut i2 = 0.0;
        for i in -m2..=m2 {
            for j in -m2..=m2 {
                i2 += prop.logp(&[f(0.0), f(0.0)], &[f(i as f64 * h2), f(j as f64 * h2)]).to_f64().unwrap().exp() * h2 * h2;
            }
        }
        let case = json!({"proposal": "IsotropicGaussian", "ty": ty, "std": std, "integral": 2});
        close(ctx, "C15:isotropic-logp-normalisation", "integral of exp(logp) over R^2 (trapezoid, d=2)", i2, 1.0, 5e-3, &case);
    }
    // the public `std` field may be re-tuned after construction: logp must stay the density of what sample() draws
    for (s1, s2) in [(1.0, 2.0), (0.5, 1e-3), (2.0, 0.25), (1e3, 1.0)] {
        for d in [1usize, 3] {
            let mut prop = IsotropicGaussian::<T>::new(f(s1)).set_seed(5);
            prop.std = f(s2);
            let s2r = f(s2).to_f64().unwrap();
            let from: Vec<T> = (0..d).map(|k| f(0.1 * k as f64)).collect();
            let to: Vec<T> = (0..d).map(|k| f(0.1 * k as f64 + 0.7 * s2r)).collect();
            let sq: f64 = from.iter().zip(to.iter()).map(|(a, b)| (b.to_f64().unwrap() - a.to_f64().unwrap()).powi(2)).sum();
            let want = -(d as f64) / 2.0 * (2.0 * PI * s2r * s2r).ln() - sq / (2.0 * s2r * s2r);
            let got = prop.logp(&from, &to).to_f64().unwrap();
            let case = json!({"proposal": "IsotropicGaussian", "ty": ty, "constructed_with_std": s1, "std_assigned_afterwards": s2, "d": d});
            ctx.evals(1);
            close(ctx, "C15:isotropic-logp-after-retune", "IsotropicGaussian::logp after assigning the public std field", got, want, tol_rel * (want.abs() + 1.0) * 8.0, &case);
            // and sample() scales with the re-tuned std
            let z: Vec<f64> = prop.sample(&from).iter().zip(from.iter()).map(|(a, b)| a.to_f64().unwrap() - b.to_f64().unwrap()).collect();
            let mut base = IsotropicGaussian::<T>::new(f(1.0)).set_seed(5);
            let z1: Vec<f64> = base.sample(&from).iter().zip(from.iter()).map(|(a, b)| a.to_f64().unwrap() - b.to_f64().unwrap()).collect();
            for k in 0..d {
                if !((z[k] - s2r * z1[k]).abs() <= 64.0 * tol_rel * (s2r * z1[k]).abs().max(1e-3 * s2r) + 8.0 * tol_rel) {
                    ctx.violation(Violation::new("C15:isotropic-sample-after-retune", format!("sample() does not use the re-tuned std {s2}: noise {} vs {}", z[k], s2r * z1[k]), case.clone()));
                    break;
                }
            }
        }
    }
    // sample(): location-scale family of one base stream; reproducible after set_seed
    for seed in [0u64, 7, 42] {
        for d in [1usize, 3, 32] {
            let base = |std: f64, c: f64| -> Vec<f64> {
                let mut p = IsotropicGaussian::<T>::new(f(std)).set_seed(seed);
                let cur: Vec<T> = (0..d).map(|_| f(c)).collect();
                p.sample(&cur).iter().map(|x| x.to_f64().unwrap()).collect()
            };
            let z1 = base(1.0, 0.0);
            let case = json!({"proposal": "IsotropicGaussian", "ty": ty, "seed": seed, "d": d, "sample": true});
            ctx.evals(1);
            if z1.len() != d {
                ctx.violation(Violation::new("C15:isotropic-sample", format!("sample returned {} coordinates for a {d}-dimensional state", z1.len()), case.clone()));
                continue;
            }
            let z1b = base(1.0, 0.0);
            if z1.iter().zip(z1b.iter()).any(|(a, b)| a.to_bits() != b.to_bits()) {
                ctx.violation(Violation::new("C15:isotropic-seed", "set_seed does not make sample() reproducible", case.clone()));
            }
            let other = {
                let mut p = IsotropicGaussian::<T>::new(f(1.0)).set_seed(seed + 1);
                let cur: Vec<T> = (0..d).map(|_| f(0.0)).collect();
                p.sample(&cur).iter().map(|x| x.to_f64().unwrap()).collect::<Vec<f64>>()
            };
            if other == z1 {
                ctx.violation(Violation::new("C15:isotropic-seed", "different seeds give the same sample", case.clone()));
            }
            for c in [5.0, -3.0] {
                let zc = base(1.0, c);
                for k in 0..d {
                    if !((zc[k] - c - z1[k]).abs() <= 8.0 * tol_rel * (c.abs() + z1[k].abs()) + 1e-300) {
                        ctx.violation(Violation::new("C15:isotropic-sample", format!("sample(c) - c depends on c: coord {k}: {} vs {}", zc[k] - c, z1[k]), case.clone()));
                        break;
                    }
                }
            }
            for s in [0.5, 4.0, 1024.0] {
                let zs = base(s, 0.0);
                for k in 0..d {
                    if !((zs[k] - s * z1[k]).abs() <= 4.0 * tol_rel * (s * z1[k]).abs() + 1e-300) {
                        ctx.violation(Violation::new("C15:isotropic-sample", format!("sample does not scale with std={s}: coord {k}: {} vs {}", zs[k], s * z1[k]), case.clone()));
                        break;
                    }
                }
            }
            // distinct coordinates (independent noise per coordinate)
            if d >= 3 {
                let mut s = z1.clone();
                s.sort_by(|a, b| a.partial_cmp(b).unwrap());
                s.dedup();
                if s.len() < d {
                    ctx.violation(Violation::new("C15:isotropic-sample", "two coordinates of one proposal received identical noise", case.clone()));
                }
            }
        }
    }
    // E3 histories over {sample a 1/3/70-dimensional candidate, set_seed(1), set_seed(2), clone-and-continue-with-the-clone}:
    // whatever happened before, the draws after the LAST set_seed(s) equal those of a fresh proposal seeded with s that
    // performs the same later operations ("set_seed makes its draws reproducible")
    {
        #[derive(Clone, Copy, Debug, PartialEq)]
        enum Op {
            Sample(usize),
            Seed(u64),
            CloneSwap,
        }
        let alphabet = [Op::Sample(1), Op::Sample(3), Op::Sample(70), Op::Seed(1), Op::Seed(2), Op::CloneSwap];
        let depth = 4usize;
        let total = alphabet.len().pow(depth as u32);
        let apply = |p: &mut IsotropicGaussian<T>, ops: &[Op]| -> Vec<Vec<u64>> {
            let mut out = vec![];
            for op in ops {
                match *op {
                    Op::Sample(d) => {
                        let cur: Vec<T> = (0..d).map(|k| f(0.25 * k as f64)).collect();
                        out.push(p.sample(&cur).iter().map(|x| x.to_f64().unwrap().to_bits()).collect());
                    }
                    Op::Seed(sd) => *p = p.clone().set_seed(sd),
                    Op::CloneSwap => *p = p.clone(),
                }
            }
            out
        };
        let mut checked = 0u64;
        for idx in 0..total {
            let mut i = idx;
            let ops: Vec<Op> = (0..depth).map(|_| { let o = alphabet[i % alphabet.len()]; i /= alphabet.len(); o }).collect();
            let Some(last_seed) = ops.iter().rposition(|o| matches!(o, Op::Seed(_))) else { continue };
            if !ops[last_seed + 1..].iter().any(|o| matches!(o, Op::Sample(_))) || !ops[..last_seed].iter().any(|o| matches!(o, Op::Sample(_))) {
                continue; // nothing drawn after the seed, or nothing drawn before it (covered above)
            }
            let Op::Seed(sd) = ops[last_seed] else { continue };
            ctx.evals(1);
            ctx.transitions(depth as u64);
            let mut p = IsotropicGaussian::<T>::new(f(1.5)).set_seed(99);
            let all = apply(&mut p, &ops);
            let n_after = ops[last_seed + 1..].iter().filter(|o| matches!(o, Op::Sample(_))).count();
            let got = &all[all.len() - n_after..];
            let mut fresh = IsotropicGaussian::<T>::new(f(1.5)).set_seed(sd);
            let want = apply(&mut fresh, &ops[last_seed + 1..]);
            if got != &want[..] {
                ctx.violation(Violation::new(
                    "C15:isotropic-seed(history)",
                    format!("history {ops:?}: the draws after the last set_seed({sd}) differ from those of a fresh proposal seeded with {sd}"),
                    json!({"proposal": "IsotropicGaussian", "ty": ty, "history": format!("{ops:?}")}),
                ));
            }
            checked += 1;
        }
        ctx.outcome("isotropic seed histories checked", checked);
    }
    // Target impl: unnormalised isotropic log-density
    for std in [0.5, 2.0] {
        let p = IsotropicGaussian::<T>::new(f(std));
        let x = [0.3, -1.2, 2.0];
        let xt: Vec<T> = x.iter().map(|v| f(*v)).collect();
        let want = -0.5 * x.iter().map(|v| f(*v).to_f64().unwrap().powi(2)).sum::<f64>() / (std * std);
        let got = <IsotropicGaussian<T> as Target<T, T>>::unnorm_logp(&p, &xt).to_f64().unwrap();
        close(ctx, "C15:isotropic-target", "IsotropicGaussian::unnorm_logp", got, want, tol_rel * (want.abs() + 1.0), &json!({"target": "IsotropicGaussian", "ty": ty, "std": std}));
    }
}

pub fn run(ctx: &Ctx) {
    ctx.rule("finite lattice: means {-2,0,1.5}^2-subset x 5 SPD covariances (cond up to 1e4) x 7x7 points x batch sizes {1,2,3,64} x {f32,f64} scalars x {NdArray<f32>,NdArray<f64>} backends; Rosenbrock (3 parameter pairs, 7x7 lattice, ND for D=2..5); IsotropicGaussian: all 4-operation histories over {sample d=1/3/70, set_seed(1), set_seed(2), clone} (draws after the last set_seed equal a fresh seeded proposal's); std in {1e-3,0.5,1,2,1e3}, d in {1,2,3,32}; closed-form f64 oracles; a case is distinct by its (target, parameters, point/batch) hash");
    let means = if ctx.tier.thorough() { vec![[0.0, 0.0], [-2.0, 1.5], [1.5, -2.0], [0.0, 1.0]] } else { vec![[0.0, 0.0], [-2.0, 1.5]] };
    // every covariance also at tiny and large overall scale (standard deviations 1e-2 / 1e2; f64 additionally 1e-5)
    let mut cov_list: Vec<([[f64; 2]; 2], bool)> = vec![];
    for c in covs() {
        cov_list.push((c, true));
        for sc in [1e-4, 1e4] {
            cov_list.push(([[c[0][0] * sc, c[0][1] * sc], [c[1][0] * sc, c[1][1] * sc]], true));
        }
        cov_list.push(([[c[0][0] * 1e-10, c[0][1] * 1e-10], [c[1][0] * 1e-10, c[1][1] * 1e-10]], false));
    }
    for m in means.iter() {
        for (c, also_f32) in cov_list.iter().cloned() {
            let g = G2 { mean: *m, cov: c };
            if !also_f32 {
                gaussian2d::<f64>(ctx, "f64", &g, TOL64);
                diffable::<f64, BF64>(ctx, "f64/NdArray<f64>", &g);
                continue;
            }
            gaussian2d::<f32>(ctx, "f32", &g, TOL32);
            gaussian2d::<f64>(ctx, "f64", &g, TOL64);
            diffable::<f32, BF32>(ctx, "f32/NdArray<f32>", &g);
            diffable::<f64, BF64>(ctx, "f64/NdArray<f64>", &g);
            if ctx.tier.thorough() {
                diffable::<f64, BF32>(ctx, "f64/NdArray<f32>", &g);
                diffable::<f32, BF64>(ctx, "f32/NdArray<f64>", &g);
            }
        }
    }
    rosen::<f32, BF32>(ctx, "f32/NdArray<f32>", TOL32);
    rosen::<f64, BF64>(ctx, "f64/NdArray<f64>", 1e-10);
    isotropic::<f32>(ctx, "f32", TOL32);
    isotropic::<f64>(ctx, "f64", 1e-12);
    ctx.assume("continuous domain covered by a finite lattice only (level: exploration); that the base noise of IsotropicGaussian::sample is standard normal is trusted to rand_distr");
    ctx.assume("DiffableGaussian2D rounds its parameters to f32 (burn from_floats) on every backend: f32-level tolerance (3e-5 relative to the magnitude of the summed terms), as the statement grants");
    ctx.not_exhaustive();
}

pub fn check_case(ctx: &Ctx, _case: &Value) {
    // cases are cheap and deterministic: re-run the quick lattice (the violating case is part of it)
    run(ctx);
}
