//! C07 — same seed, same output: repeat/seed grid, thread-pool sizes, progress vs plain, and (E2)
//! exhaustive chain-level interleavings of several samplers running concurrently.
use crate::burnutil::*;
use crate::common::*;
use crate::zoo::*;
use mini_mcmc::core::{init_det, init_with_seed, run_chain, ChainRunner};
use serde_json::{json, Value};

pub const SEEDS: [u64; 7] = [0, 1, 41, 42, 1 << 32, u64::MAX - 1, u64::MAX];
const NC: usize = 4;
const ND: usize = 2;

#[derive(Clone, Copy, PartialEq, Eq, Debug)]
pub enum Kind {
    Mh,
    Gibbs,
    HmcF32,
    HmcF64,
    NutsF32,
    NutsF64,
}
pub const KINDS: [Kind; 6] = [Kind::Mh, Kind::Gibbs, Kind::HmcF32, Kind::HmcF64, Kind::NutsF32, Kind::NutsF64];

impl Kind {
    pub fn name(&self) -> &'static str {
        match self {
            Kind::Mh => "MH",
            Kind::Gibbs => "Gibbs",
            Kind::HmcF32 => "HMC<f32,NdArray<f32>>",
            Kind::HmcF64 => "HMC<f64,NdArray<f64>>",
            Kind::NutsF32 => "NUTS<f32,NdArray<f32>>",
            Kind::NutsF64 => "NUTS<f64,NdArray<f64>>",
        }
    }
    pub fn from(s: &str) -> Option<Kind> {
        KINDS.iter().copied().find(|k| k.name() == s)
    }
}

/// Build from (n_chains, seed) and run; output as f64 bit patterns. Panics are caught.
pub fn build_and_run(kind: Kind, n_chains: usize, seed: u64, n_collect: usize, n_discard: usize) -> Result<Vec<u64>, String> {
    catch(|| match kind {
        Kind::Mh => mh_run_bits(&mut mh_build(n_chains, Some(seed), false), n_collect, n_discard),
        Kind::Gibbs => gibbs_build(n_chains, Some(seed)).run(n_collect, n_discard).map(|a| arr3_bits(&a)).map_err(|e| e.to_string()),
        Kind::HmcF32 => Ok(tensor_bits(&hmc_build::<f32, BF32>(n_chains, Some(seed), false).run(n_collect, n_discard))),
        Kind::HmcF64 => Ok(tensor_bits(&hmc_build::<f64, BF64>(n_chains, Some(seed), false).run(n_collect, n_discard))),
        Kind::NutsF32 => Ok(tensor_bits(&nuts_build::<f32, BF32>(n_chains, Some(seed), false).run(n_collect, n_discard))),
        Kind::NutsF64 => Ok(tensor_bits(&nuts_build::<f64, BF64>(n_chains, Some(seed), false).run(n_collect, n_discard))),
    })
    .and_then(|r| r)
}

fn repeat_grid(ctx: &Ctx) {
    for kind in KINDS {
        let mut outs: Vec<(u64, Vec<u64>)> = vec![];
        for seed in SEEDS {
            for n_chains in [1usize, 3] {
                let case = json!({"part": "repeat", "sampler": kind.name(), "seed": seed.to_string(), "n_chains": n_chains});
                ctx.evals(1);
                ctx.transitions(2);
                ctx.state(hash_str(&case.to_string()));
                let a = build_and_run(kind, n_chains, seed, NC, ND);
                let b = build_and_run(kind, n_chains, seed, NC, ND);
                match (a, b) {
                    (Err(m), _) | (_, Err(m)) => {
                        let overflow = m.contains("overflow");
                        ctx.violation(Violation::new(
                            if overflow { format!("C07:seed-overflow({})", kind.name()) } else { format!("C07:panic({})", kind.name()) },
                            format!("{} with seed {seed} and {n_chains} chain(s) panicked: {m}", kind.name()),
                            case,
                        ));
                    }
                    (Ok(a), Ok(b)) => {
                        if a != b {
                            ctx.violation(Violation::new(
                                format!("C07:not-reproducible({})", kind.name()),
                                format!("{} built twice from the same inputs and seed {seed} ({n_chains} chain(s)) returns different draws", kind.name()),
                                case,
                            ));
                        } else {
                            ctx.outcome("repeat-identical", 1);
                            ctx.sample_tagged("repeat", || json!({"input": case.clone(), "first_output_values": a.iter().take(4).map(|b| f64::from_bits(*b)).collect::<Vec<_>>()}));
                            ctx.distinct(hash_of(&a));
                        }
                        if n_chains == 3 {
                            outs.push((seed, a));
                        }
                    }
                }
            }
        }
        // different seeds give different output (Gibbs: the library seed does not reach the user's conditional — excluded)
        if kind != Kind::Gibbs {
            for i in 0..outs.len() {
                for j in i + 1..outs.len() {
                    if outs[i].1 == outs[j].1 {
                        ctx.violation(Violation::new(
                            format!("C07:seed-ignored({})", kind.name()),
                            format!("{}: seeds {} and {} give identical output", kind.name(), outs[i].0, outs[j].0),
                            json!({"part": "repeat", "sampler": kind.name(), "seed": outs[i].0.to_string(), "n_chains": 3}),
                        ));
                    }
                }
            }
        }
    }
    // the proposal handed to the constructor may have been used before (it then carries consumed entropy, possibly
    // buffered draws): after `.seed(s)` two such constructions must still agree bit for bit
    {
        use mini_mcmc::distributions::{IsotropicGaussian, Proposal};
        use mini_mcmc::metropolis_hastings::MetropolisHastings;
        for seed in SEEDS {
            for pre in [0usize, 1, 70] {
                let build = || {
                    let mut p = IsotropicGaussian::<f64>::new(1.0);
                    for _ in 0..pre {
                        let _ = p.sample(&[0.0, 0.0]);
                    }
                    let mut s = MetropolisHastings::new(mh_target(), p, init_det(3, 2)).seed(seed);
                    mh_run_bits(&mut s, NC, ND)
                };
                let case = json!({"part": "pre-used-proposal", "sampler": "MH", "seed": seed.to_string(), "proposal_samples_before_construction": pre});
                ctx.evals(1);
                ctx.transitions(2);
                match (catch(build).and_then(|r| r), catch(build).and_then(|r| r)) {
                    (Err(m), _) | (_, Err(m)) => ctx.violation(Violation::new("C07:panic(MH)", m, case)),
                    (Ok(a), Ok(b)) => {
                        if a != b {
                            ctx.violation(Violation::new(
                                "C07:not-reproducible(MH, pre-used proposal)",
                                format!("MH built twice with seed {seed} from a library proposal that had produced {pre} candidate(s) before construction returns different draws"),
                                case,
                            ));
                        } else {
                            ctx.outcome("pre-used-proposal constructions identical", 1);
                        }
                    }
                }
            }
        }
    }
    // every single-bit flip of a base seed (and the base itself): 65 seeds per base, outputs pairwise different
    // (a seed derivation that drops or folds a bit of the user's seed maps two of these to one stream)
    {
        use rayon::prelude::*;
        for kind in KINDS {
            if kind == Kind::Gibbs {
                continue;
            }
            for base in [0u64, 42] {
                let seeds: Vec<u64> = std::iter::once(base).chain((0..64).map(|b| base ^ (1u64 << b))).collect();
                let outs: Vec<(u64, Result<Vec<u64>, String>)> = seeds.par_iter().map(|s| (*s, build_and_run(kind, 2, *s, 8, 4))).collect();
                ctx.evals(seeds.len() as u64);
                ctx.transitions(seeds.len() as u64);
                let mut seen: std::collections::HashMap<u64, u64> = std::collections::HashMap::new();
                for (s, o) in outs.iter() {
                    let case = json!({"part": "seed-bits", "sampler": kind.name(), "seed": s.to_string(), "base": base.to_string()});
                    match o {
                        Err(m) => ctx.violation(Violation::new(format!("C07:panic({})", kind.name()), format!("{} with seed {s} panicked: {m}", kind.name()), case)),
                        Ok(bits) => {
                            let h = hash_of(bits);
                            if let Some(other) = seen.get(&h) {
                                ctx.violation(Violation::new(
                                    format!("C07:seed-ignored({})", kind.name()),
                                    format!("{}: seeds {other} and {s} (one differing bit of base {base} each) give identical output", kind.name()),
                                    case,
                                ));
                            } else {
                                seen.insert(h, *s);
                            }
                        }
                    }
                }
                ctx.outcome("seed-bit-flip families checked", 1);
            }
        }
    }
    // seeded initialisers are pure (shared with C18)
    for seed in SEEDS {
        let a = init_with_seed::<f64>(5, 3, seed);
        let b = init_with_seed::<f64>(5, 3, seed);
        if a != b || init_det::<f64>(5, 3) != init_with_seed::<f64>(5, 3, 42) {
            ctx.violation(Violation::new("C07:init-impure", format!("init_with_seed(5,3,{seed}) is not a pure function"), json!({"part": "init", "seed": seed.to_string()})));
        }
        ctx.transitions(2);
    }
}

/// run() inside a private rayon pool of every size equals the stack of solo chain runs.
fn pool_sizes(ctx: &Ctx) {
    let sizes: Vec<usize> = if ctx.tier.thorough() { (1..=16).collect() } else { vec![1, 2, 3, 16] };
    let n_chains = 5;
    let seed = 42u64;
    // solo references: each chain run alone, sequentially, on this thread
    let mh_ref: Vec<u64> = {
        let mut s = mh_build(n_chains, Some(seed), false);
        let mut out = vec![];
        for ch in s.chains.iter_mut() {
            out.extend(run_chain(ch, NC, ND).iter().map(|x| x.to_bits()));
        }
        out
    };
    let gibbs_ref: Vec<u64> = {
        let mut s = gibbs_build(n_chains, Some(seed));
        let mut out = vec![];
        for ch in s.chains.iter_mut() {
            out.extend(run_chain(ch, NC, ND).iter().map(|x| x.to_bits()));
        }
        out
    };
    let nuts_ref: Vec<u64> = {
        let mut s = nuts_build::<f64, BF64>(n_chains, Some(seed), false);
        let mut out = vec![];
        for ch in s.verif_chains_mut().iter_mut() {
            out.extend(tensor_bits(&ch.run(NC, ND)));
        }
        out
    };
    // the seeded initialisers are pure functions of their arguments, whatever pool they are called from (large shapes too)
    let init_ref: Vec<Vec<u64>> = [(512usize, 64usize), (6, 10000), (40, 100)].iter().map(|(n, d)| init_with_seed::<f64>(*n, *d, 7).iter().flatten().map(|x| x.to_bits()).collect()).collect();
    for k in sizes.iter().cloned() {
        let pool = rayon::ThreadPoolBuilder::new().num_threads(k).build().expect("rayon pool");
        for (i, (n, d)) in [(512usize, 64usize), (6, 10000), (40, 100)].iter().enumerate() {
            let got: Vec<u64> = pool.install(|| init_with_seed::<f64>(*n, *d, 7).iter().flatten().map(|x| x.to_bits()).collect());
            ctx.transitions(1);
            if got != init_ref[i] {
                ctx.violation(Violation::new("C07:init-impure(pool)", format!("init_with_seed({n},{d},7) called inside a pool of {k} thread(s) differs from the same call outside"), json!({"part": "pool", "sampler": "init", "threads": k})));
            } else {
                ctx.outcome("init-pool-identical", 1);
            }
        }
    }
    for k in sizes {
        let pool = rayon::ThreadPoolBuilder::new().num_threads(k).build().expect("rayon pool");
        for (name, reference) in [("MH", &mh_ref), ("Gibbs", &gibbs_ref), ("NUTS<f64,NdArray<f64>>", &nuts_ref)] {
            let case = json!({"part": "pool", "sampler": name, "threads": k});
            ctx.evals(1);
            ctx.transitions(1);
            ctx.state(hash_str(&case.to_string()));
            let got = catch(|| {
                pool.install(|| match name {
                    "MH" => mh_run_bits(&mut mh_build(n_chains, Some(seed), false), NC, ND).unwrap(),
                    "Gibbs" => arr3_bits(&gibbs_build(n_chains, Some(seed)).run(NC, ND).unwrap()),
                    _ => tensor_bits(&nuts_build::<f64, BF64>(n_chains, Some(seed), false).run(NC, ND)),
                })
            });
            match got {
                Err(m) => ctx.violation(Violation::new(format!("C07:panic({name})"), format!("{name} run in a pool of {k} threads panicked: {m}"), case)),
                Ok(g) => {
                    if &g != reference {
                        ctx.violation(Violation::new(format!("C07:pool-dependence({name})"), format!("{name}: run() in a pool of {k} thread(s) differs from the stack of its chains run alone"), case));
                    } else {
                        ctx.outcome("pool-size-identical", 1);
                    }
                }
            }
        }
    }
}

/// progress reporting does not change the draws (f32 backends here; precision grid is C10's).
fn progress_vs_plain(ctx: &Ctx) {
    let (_, hung) = super::c10::with_bounded_reporter(|| progress_vs_plain_inner(ctx));
    if hung {
        ctx.violation(Violation::new("C07:progress-hangs", "run_progress: the progress reporter never exits although every chain finished", json!({"part": "progress"})));
    }
}

fn progress_vs_plain_inner(ctx: &Ctx) {
    for (seed, nch) in [(7u64, 3usize), (42, 3), (42, 1), (7, 2)] {
        super::c10::reset_bounded_pub();
        let case = json!({"part": "progress", "seed": seed, "n_chains": nch});
        ctx.evals(1);
        // MH
        let a = mh_run_bits(&mut mh_build(nch, Some(seed), false), 5, 2);
        let b = catch(|| mh_build(nch, Some(seed), false).run_progress(5, 2).map(|x| arr3_bits(&x.0)).map_err(|e| e.to_string())).and_then(|r| r);
        cmp(ctx, "MH", a, b, &case);
        let a = gibbs_build(nch, Some(seed)).run(5, 2).map(|x| arr3_bits(&x)).map_err(|e| e.to_string());
        let b = catch(|| gibbs_build(nch, Some(seed)).run_progress(5, 2).map(|x| arr3_bits(&x.0)).map_err(|e| e.to_string())).and_then(|r| r);
        cmp(ctx, "Gibbs", a, b, &case);
        let a = catch(|| tensor_bits(&hmc_build::<f32, BF32>(nch, Some(seed), false).run(5, 2)));
        let b = catch(|| hmc_build::<f32, BF32>(nch, Some(seed), false).run_progress(5, 2).map(|x| tensor_bits(&x.0)).map_err(|e| e.to_string())).and_then(|r| r);
        cmp(ctx, "HMC<f32,NdArray<f32>>", a, b, &case);
        for (nm, a, b) in [
            ("HMC<f32,NdArray<f64>>", catch(|| tensor_bits(&hmc_build::<f32, BF64>(nch, Some(seed), false).run(5, 2))), catch(|| hmc_build::<f32, BF64>(nch, Some(seed), false).run_progress(5, 2).map(|x| tensor_bits(&x.0)).map_err(|e| e.to_string())).and_then(|r| r)),
            ("HMC<f64,NdArray<f64>>", catch(|| tensor_bits(&hmc_build::<f64, BF64>(nch, Some(seed), false).run(5, 2))), catch(|| hmc_build::<f64, BF64>(nch, Some(seed), false).run_progress(5, 2).map(|x| tensor_bits(&x.0)).map_err(|e| e.to_string())).and_then(|r| r)),
            ("HMC<f64,NdArray<f32>>", catch(|| tensor_bits(&hmc_build::<f64, BF32>(nch, Some(seed), false).run(5, 2))), catch(|| hmc_build::<f64, BF32>(nch, Some(seed), false).run_progress(5, 2).map(|x| tensor_bits(&x.0)).map_err(|e| e.to_string())).and_then(|r| r)),
        ] {
            cmp(ctx, nm, a, b, &case);
        }
        // NUTS: run_progress(n, d) == run(n+1, d) without its first row
        let a = catch(|| {
            let t = nuts_build::<f32, BF32>(nch, Some(seed), false).run(6, 2);
            let c = cube(&t);
            c.iter().flat_map(|ch| ch[1..].iter().flatten().map(|x| x.to_bits()).collect::<Vec<_>>()).collect::<Vec<u64>>()
        });
        let b = catch(|| nuts_build::<f32, BF32>(nch, Some(seed), false).run_progress(5, 2).map(|x| tensor_bits(&x.0)).map_err(|e| e.to_string())).and_then(|r| r);
        cmp(ctx, "NUTS<f32,NdArray<f32>>", a, b, &case);
    }
}

fn cmp(ctx: &Ctx, name: &str, a: Result<Vec<u64>, String>, b: Result<Vec<u64>, String>, case: &Value) {
    ctx.transitions(2);
    match (a, b) {
        (Ok(a), Ok(b)) => {
            if a != b {
                ctx.violation(Violation::new(format!("C07:progress-changes-draws({name})"), format!("{name}: run_progress returns other draws than run from an identically built sampler"), case.clone()));
            } else {
                ctx.outcome("progress-identical", 1);
            }
        }
        (Err(m), _) | (_, Err(m)) => ctx.violation(Violation::new(format!("C07:panic({name})"), format!("{name}: {m}"), case.clone())),
    }
}

pub fn run(ctx: &Ctx) {
    ctx.rule("(c') all 64 single-bit flips of the base seeds 0 and 42 per sampler: outputs pairwise different; (a) E2: exhaustive chain-level interleavings of several samplers running concurrently (see c07 interleavings), (b) run() inside a private rayon pool of every stated size vs the stack of chains run alone, (c) repeat/seed grid: seeds {0,1,41,42,2^32,u64::MAX-1,u64::MAX} x {1,3} chains x six sampler configurations built twice, pairwise seed sensitivity, progress vs plain. states = distinct (sampler, seed, chains / pool size / schedule) configurations; transitions = sampler runs; non-trivial = a configuration whose two runs completed, distinct by output hash");
    repeat_grid(ctx);
    pool_sizes(ctx);
    progress_vs_plain(ctx);
    super::c07_sched::interleavings(ctx);
    ctx.assume("rayon's own internal interleavings are not under the controller (free-running pools of each size); chain-level interleavings are, in part (a)");
    ctx.assume("harness built with overflow-checks=on so that wrapping seed arithmetic is loud, as in the debug profile users test with");
}

pub fn check_case(ctx: &Ctx, case: &Value) {
    match case["part"].as_str() {
        Some("repeat") => {
            let Some(kind) = case["sampler"].as_str().and_then(Kind::from) else { return };
            let seed: u64 = case["seed"].as_str().and_then(|s| s.parse().ok()).unwrap_or(0);
            let n = case["n_chains"].as_u64().unwrap_or(1) as usize;
            let a = build_and_run(kind, n, seed, NC, ND);
            let b = build_and_run(kind, n, seed, NC, ND);
            match (a, b) {
                (Err(m), _) | (_, Err(m)) => ctx.violation(Violation::new(format!("C07:panic({})", kind.name()), m, case.clone())),
                (Ok(a), Ok(b)) => {
                    if a != b {
                        ctx.violation(Violation::new(format!("C07:not-reproducible({})", kind.name()), "two identical constructions differ", case.clone()));
                    }
                }
            }
        }
        Some("seed-bits") => {
            let Some(kind) = case["sampler"].as_str().and_then(Kind::from) else { return };
            let seed: u64 = case["seed"].as_str().and_then(|s| s.parse().ok()).unwrap_or(0);
            let base: u64 = case["base"].as_str().and_then(|s| s.parse().ok()).unwrap_or(0);
            let a = build_and_run(kind, 2, seed, 8, 4);
            for other in std::iter::once(base).chain((0..64).map(|b| base ^ (1u64 << b))) {
                if other != seed && build_and_run(kind, 2, other, 8, 4) == a {
                    ctx.violation(Violation::new(format!("C07:seed-ignored({})", kind.name()), format!("seeds {other} and {seed} give identical output"), case.clone()));
                    break;
                }
            }
        }
        Some("pre-used-proposal") => repeat_grid(ctx),
        Some("pool") => pool_sizes(ctx),
        Some("progress") => progress_vs_plain(ctx),
        Some("interleaving") => super::c07_sched::replay(ctx, case),
        _ => {}
    }
}
