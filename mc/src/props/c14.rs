//! C14 — no sampler ever moves to a zero-density, NaN-density or non-finite state; no panic, no hang.
use super::c01::StateVal;
use super::c02::{instrumented_step, ref_of, AnyTarget};
use super::nutsref::*;
use crate::burnutil::*;
use crate::common::*;
use crate::e2::explore;
use burn::tensor::backend::AutodiffBackend;
use mini_mcmc::core::MarkovChain;
use mini_mcmc::distributions::{Proposal, Target};
use mini_mcmc::hmc::HMC;
use mini_mcmc::metropolis_hastings::MHMarkovChain;
use mini_mcmc::nuts::NUTSChain;
use num_traits::Float;
use rayon::prelude::*;
use serde_json::{json, Value};

// ------------------------------------------------------------------ MH on bounded-support / NaN-region targets

#[derive(Clone)]
struct SupportTarget {
    kind: usize,
}
fn support_logp(kind: usize, x: &[f64]) -> f64 {
    match kind {
        0 => x.iter().map(|v| if *v > 0.0 { -v } else { f64::NEG_INFINITY }).sum(), // half-line, exponential
        1 => x.iter().map(|v| if v.abs() <= 1.0 { 0.0 } else { f64::NEG_INFINITY }).sum(), // box
        2 => x.iter().map(|v| v.ln() - v).sum(),                                     // Gamma(2,1): NaN for x<0, -inf at 0
        3 => x.iter().map(|v| (1.0 - v * v).sqrt().ln()).sum(),                      // semicircle: NaN outside [-1,1], -inf at +-1
        _ => x.iter().map(|v| if v.fract() == 0.0 && *v >= 0.0 && *v <= 5.0 { -(v - 2.0).abs() } else { f64::NEG_INFINITY }).sum(), // lattice 0..5
    }
}
impl Target<f64, f64> for SupportTarget {
    fn unnorm_logp(&self, x: &[f64]) -> f64 {
        support_logp(self.kind, x)
    }
}
#[derive(Clone)]
struct ScriptProp {
    next: Vec<f64>,
    asym: bool,
}
impl Proposal<f64, f64> for ScriptProp {
    fn sample(&mut self, _c: &[f64]) -> Vec<f64> {
        self.next.clone()
    }
    fn logp(&self, from: &[f64], to: &[f64]) -> f64 {
        if self.asym {
            // an asymmetric (but finite) proposal density
            -0.1 * (to[0] - from[0]).abs() - if to[0] > from[0] { 0.3 } else { 0.0 }
        } else {
            0.0
        }
    }
    fn set_seed(self, _s: u64) -> Self {
        self
    }
}

fn mh_part(ctx: &Ctx) {
    let cands: Vec<f64> = vec![-2.0, -1.0, -1e-300, -0.0, 0.0, 1e-300, 0.5, 1.0, 1.0 + 1e-16, 2.0, 2.5, 5.0, 6.0, 1e308, f64::INFINITY, f64::NEG_INFINITY, f64::NAN];
    let starts: Vec<(usize, f64)> = vec![(0, 0.5), (0, 1e-300), (1, 0.0), (1, 1.0), (1, -1.0), (2, 1.0), (2, 1e-300), (3, 0.0), (3, 0.999), (4, 2.0), (4, 0.0), (4, 5.0)];
    let ks: Vec<u64> = vec![1, 2, 1 << 52, (1 << 53) - 1]; // u = 0 excluded by the statement
    for (kind, x0) in starts {
        for y in cands.iter() {
            for asym in [false, true] {
                for &k in ks.iter() {
                    let case = json!({"sampler": "MH", "target_kind": kind, "x": jf(x0), "y": jf(*y), "asym": asym, "k": k.to_string()});
                    ctx.evals(1);
                    ctx.transitions(1);
                    let mut chain = MHMarkovChain::<f64, f64, _, _>::new(SupportTarget { kind }, ScriptProp { next: vec![*y], asym }, vec![x0]);
                    chain.rng = rng_first_f64(k);
                    match catch(|| chain.step().clone()) {
                        Err(m) => ctx.violation(Violation::new("C14:panic(MH)", format!("MH step panicked for candidate {y}: {m}"), case)),
                        Ok(st) => {
                            let unchanged = st[0].bits() == x0.bits();
                            let lp = support_logp(kind, &st);
                            if !unchanged && !(lp.is_finite() && st[0].is_finite()) {
                                ctx.violation(Violation::new(
                                    "C14:mh-moved-to-bad-state",
                                    format!("MH moved from x={x0} (log p {}) to {} whose log-density is {lp} (target kind {kind}, u variate {k})", support_logp(kind, &[x0]), st[0]),
                                    case,
                                ));
                            } else {
                                ctx.outcome(if unchanged { "MH:stayed" } else { "MH:moved-to-valid" }, 1);
                                if !y.is_finite() || support_logp(kind, &[*y]) == f64::NEG_INFINITY {
                                    ctx.sample_tagged("MH candidate outside the support", || json!({"input": case.clone(), "state_after": jf(st[0]), "log_density_after": jf(lp)}));
                                }
                                if !unchanged {
                                    ctx.distinct(hash_str(&case.to_string()));
                                }
                            }
                        }
                    }
                    ctx.state(hash_of(&(kind, x0.to_bits(), y.to_bits(), asym)));
                }
            }
        }
    }
}

// ------------------------------------------------------------------ HMC

fn hmc_part<T, B>(ctx: &Ctx, name: &str, f32b: bool)
where
    T: Float + burn::tensor::ElementConversion + burn::tensor::Element + rand_distr::uniform::SampleUniform + num_traits::FromPrimitive + std::fmt::Debug + num_traits::FloatConst + Send + Sync,
    B: AutodiffBackend,
    rand_distr::StandardNormal: rand::distr::Distribution<T>,
    rand_distr::StandardUniform: rand_distr::Distribution<T>,
{
    let f = |x: f64| T::from(x).unwrap();
    let tg: Vec<(AnyTarget<T>, Vec<Vec<f64>>)> = vec![
        (AnyTarget::LogX, vec![vec![0.5, 1.0], vec![1e-3, 2.0]]),
        (AnyTarget::SqrtDom, vec![vec![0.7, 0.2], vec![1e-2, 1.0]]),
        (AnyTarget::Box1, vec![vec![0.0, 0.5], vec![0.99, -0.99]]),
        (AnyTarget::Quartic, vec![vec![0.5, -0.5], vec![3.0, 3.0]]),
        (AnyTarget::StudentT { nu: 2.0 }, vec![vec![0.1, 0.2], vec![50.0, -50.0]]),
    ];
    let big = if f32b { f32::MAX as f64 } else { f64::MAX };
    let epss: Vec<f64> = vec![0.1, 1.0, 10.0, 1e10, 1e30, big];
    let moms: Vec<f64> = vec![-1e3, -2.0, -0.5, 0.0, 0.5, 2.0, 1e3];
    let hi = if f32b { 1.0 - 2f64.powi(-24) } else { 1.0 - 2f64.powi(-53) };
    let us = [1e-30, 0.5, hi];
    let mut jobs = vec![];
    for ti in 0..tg.len() {
        for &eps in &epss {
            for l in [1usize, 3] {
                jobs.push((ti, eps, l));
            }
        }
    }
    jobs.par_iter().for_each(|&(ti, eps, l)| {
        let (target, starts) = &tg[ti];
        let rt = ref_of(target);
        for m0 in moms.iter() {
            for m1 in moms.iter() {
                if !ctx.tier.thorough() && (m0.abs() == 1e3) != (m1.abs() == 1e3) && *m0 != 0.0 && *m1 != 0.0 {
                    continue;
                }
                // batches of 1, 2 and 3 chains (single-chain samplers take their own code paths in some designs)
                let batches: Vec<Vec<usize>> = if ctx.tier.thorough() { vec![vec![0, 1], vec![0], vec![1], vec![0, 1, 0]] } else { vec![vec![0, 1], vec![0], vec![1]] };
                for (u, batch) in us.iter().flat_map(|u| batches.iter().map(move |b| (*u, b))) {
                    let all_starts = starts;
                    let starts: Vec<Vec<f64>> = batch.iter().map(|k| all_starts[*k].clone()).collect();
                    let n = starts.len();
                    let m: Vec<Vec<f64>> = (0..n).map(|i| if i % 2 == 0 { vec![*m0, *m1] } else { vec![*m1, -*m0] }).collect();
                    let case = json!({"sampler": "HMC", "backend": name, "target": rt.kind, "eps": jf(eps), "L": l, "momentum": m, "u": u, "starts": starts});
                    let mut s = HMC::<T, B, AnyTarget<T>>::new(target.clone(), starts.iter().map(|r| r.iter().map(|x| f(*x)).collect()).collect(), f(eps), l).set_seed(1);
                    ctx.evals(1);
                    // two consecutive steps (the second one starts from whatever the first left behind)
                    for stepi in 0..2 {
                        ctx.transitions(1);
                        match instrumented_step(&mut s, Some(&m), Some(&vec![u; n])) {
                            Err(e) => {
                                ctx.violation(Violation::new("C14:panic(HMC)", format!("HMC::step panicked: {e}"), case.clone()));
                                break;
                            }
                            Ok(rec) => {
                                for i in 0..n {
                                    let unchanged = rec.after[i].iter().map(|x| x.to_bits()).eq(rec.prev[i].iter().map(|x| x.to_bits()));
                                    let lp = (rt.f)(&rec.after[i]);
                                    let finite = rec.after[i].iter().all(|x| x.is_finite());
                                    if !unchanged && !(lp.is_finite() && finite) {
                                        ctx.violation(Violation::new(
                                            "C14:hmc-moved-to-bad-state",
                                            format!("HMC row {i} moved from {:?} to {:?} whose log-density is {lp} ({} eps={eps} L={l}, step {stepi}, H-H'={}, ln u={})", rec.prev[i], rec.after[i], rt.kind, rec.accept_logp[i], rec.ln_u[i]),
                                            case.clone(),
                                        ));
                                    } else {
                                        ctx.outcome(if unchanged { "HMC:stayed" } else { "HMC:moved-to-valid" }, 1);
                                        if rec.accept_logp[i].is_nan() {
                                            ctx.sample_tagged("HMC NaN-energy candidate", || json!({"input": case.clone(), "row": i, "previous": jfs(&rec.prev[i]), "proposal": jfs(&rec.proposed[i]), "after": jfs(&rec.after[i])}));
                                            ctx.outcome("HMC:NaN-energy-candidate", 1);
                                        }
                                        if rec.logp_proposed[i] == f64::NEG_INFINITY {
                                            ctx.outcome("HMC:zero-density-candidate", 1);
                                        }
                                    }
                                }
                            }
                        }
                    }
                    ctx.state(hash_str(&case.to_string()));
                }
            }
        }
    });
}

// ------------------------------------------------------------------ NUTS

fn nuts_part<T, B>(ctx: &Ctx, name: &str, f32b: bool)
where
    T: Float + burn::tensor::ElementConversion + burn::tensor::Element + rand_distr::uniform::SampleUniform + num_traits::FromPrimitive + std::fmt::Debug + num_traits::FloatConst + Send + Sync,
    B: AutodiffBackend,
    rand_distr::StandardNormal: rand::distr::Distribution<T>,
    rand_distr::StandardUniform: rand_distr::Distribution<T>,
    rand_distr::Exp1: rand_distr::Distribution<T>,
{
    let tg: Vec<(AnyGT<T>, Vec<Vec<f64>>, &'static str)> = vec![
        (AnyGT::LogX, vec![vec![0.5, 1.0], vec![1e-3, 2.0]], "LogX"),
        (AnyGT::SqrtDom, vec![vec![0.7, 0.2], vec![1e-2, 1.0]], "SqrtDom"),
        (AnyGT::Box1, vec![vec![0.0, 0.5], vec![0.99, -0.99]], "Box1"),
        (AnyGT::Quartic, vec![vec![0.5, -0.5], vec![3.0, 3.0]], "Quartic"),
        (AnyGT::Funnel, vec![vec![-4.0, 0.1], vec![3.0, 5.0]], "Funnel"),
    ];
    let big = if f32b { f32::MAX as f64 } else { f64::MAX };
    let epss: Vec<f64> = if ctx.tier.thorough() { vec![0.05, 0.3, 1.0, 10.0, 1e10, 1e30, big] } else { vec![0.3, 10.0, 1e10, big] };
    let mut jobs = vec![];
    for ti in 0..tg.len() {
        for si in 0..2 {
            for &e in &epss {
                jobs.push((ti, si, e));
            }
        }
    }
    let moms2: Vec<Vec<f64>> = {
        let a = [0.3, -1.5, 1.5, 1e3, -1e3];
        let mut v = vec![];
        for x in a {
            for y in a {
                v.push(vec![x, y]);
            }
        }
        v
    };
    jobs.par_iter().for_each(|&(ti, si, eps)| {
        let (target, starts, tname) = (&tg[ti].0, &tg[ti].1, tg[ti].2);
        let rt = gt_ref(target);
        let start = &starts[si];
        // a transition legitimately needs ~(period / eps) leapfrog steps; with momenta up to 1e3 that is tens of thousands for
        // small step sizes: the 'does not terminate' verdict uses 2^12 steps for eps >= 0.3 and 2^17 below
        let leaf_limit: usize = if eps >= 0.3 { 1 << 12 } else { 1 << 17 };
        // deviation bound chosen from the number of choice points of the default execution so that the enumeration
        // completes within the budget (no cap)
        let planned = if eps >= 10.0 { 2 } else { ctx.tier.pick(1, 2) };
        let budget: f64 = ctx.tier.pick(500.0, 2500.0);
        let n_points = {
            let mut chain = chain_with_eps::<T, B>(target.clone(), start, eps);
            let (_, rec) = record_with(Script { prefix: vec![], momenta: moms2.clone(), f32_scalar: f32b, inject: true, keep: Some(&["nuts.end"]), max_leaves: leaf_limit, init_momentum: None }, || chain.step());
            rec.decisions.iter().map(|d| (d.n - 1) as f64).sum::<f64>()
        };
        let mut bound = planned;
        while bound > 0 {
            let est = if bound == 1 { 1.0 + n_points } else { 1.0 + n_points + n_points * n_points / 2.0 };
            if est * 1.5 <= budget {
                break;
            }
            bound -= 1;
        }
        let res = explore(bound, 100000, |prefix| {
            let mut chain = chain_with_eps::<T, B>(target.clone(), start, eps);
            let (r, rec) = record_with(Script { prefix: prefix.to_vec(), momenta: moms2.clone(), f32_scalar: f32b, inject: true, keep: Some(&["nuts.end", "nuts.leaf"]), max_leaves: leaf_limit, init_momentum: None }, || chain.step());
            let case = json!({"sampler": "NUTS", "backend": name, "target": tname, "start": start, "eps": jf(eps), "script": prefix});
            ctx.transitions(1);
            match r {
                Err(m) if m.contains("runaway tree") => {
                    // The property's 'does not hang' clause is about invalid candidates. A tree whose every leaf is a valid,
                    // non-divergent state (e.g. the funnel's escaping orbit under a 1e3 momentum) is merely long - Algorithm 6
                    // has no depth limit - and is reported as a cut-off. A tree that keeps growing AFTER a leaf with a NaN /
                    // non-finite joint or a failed divergence test is the hang the property excludes.
                    let leaves: Vec<&Vec<f64>> = rec.events.iter().filter(|(l, _)| l == "nuts.leaf").map(|(_, e)| e).collect();
                    let first_bad = leaves.iter().position(|e| !e[2].is_finite() || e[4] == 0.0);
                    match first_bad {
                        Some(i) if i + 2 < leaves.len() => ctx.violation(Violation::new("C14:hang(NUTS)", format!("NUTS transition on {tname} with step size {eps} keeps doubling after the invalid leaf #{i} (joint {}, s' {}) and does not terminate within {leaf_limit} leapfrog steps", leaves[i][2], leaves[i][4]), case)),
                        _ => {
                            ctx.outcome("NUTS: cut off (all leaves valid, tree longer than the leaf limit)", 1);
                            ctx.cap(&format!("NUTS transition {tname} eps={eps} script {prefix:?}: more than {leaf_limit} valid leapfrog steps, cut off"));
                        }
                    }
                }
                Err(m) => ctx.violation(Violation::new("C14:panic(NUTS)", format!("NUTSChain::step panicked on {tname} eps={eps}: {m}"), case)),
                Ok(()) => {
                    let end = v(&chain.position);
                    let unchanged = end.iter().zip(start.iter()).all(|(a, b)| {
                        let bb = if f32b { (*b as f32) as f64 } else { *b };
                        a.to_bits() == bb.to_bits()
                    });
                    let lp = (rt.f)(&end);
                    if !unchanged && !(lp.is_finite() && end.iter().all(|x| x.is_finite())) {
                        ctx.violation(Violation::new("C14:nuts-moved-to-bad-state", format!("NUTS moved from {start:?} to {end:?} whose log-density is {lp} ({tname}, step size {eps}, script {prefix:?})"), case));
                    } else {
                        ctx.outcome(if unchanged { "NUTS:stayed" } else { "NUTS:moved-to-valid" }, 1);
                        if rec.events.iter().any(|(l, e)| l == "nuts.leaf" && e[2].is_nan()) {
                            ctx.outcome("NUTS:NaN-joint-leaf", 1);
                        }
                        if rec.events.iter().any(|(l, e)| l == "nuts.leaf" && e[4] == 0.0) {
                            ctx.outcome("NUTS:divergent-leaf", 1);
                        }
                    }
                }
            }
            Ok(rec.decisions)
        });
        match res {
            Err(e) => ctx.machinery_error(format!("E1 exploration failed: {e}")),
            Ok(st) => {
                ctx.evals(st.executions);
                ctx.traces(st.executions);
                if st.capped {
                    ctx.cap(&format!("NUTS invariant exploration {tname} eps={eps}: execution cap at deviation bound {bound}"));
                }
                ctx.state(hash_of(&(ti, si, eps.to_bits(), f32b)));
                ctx.distinct(hash_of(&(ti, si, eps.to_bits(), f32b)));
            }
        }
    });
    // whole runs with the chain's own generator and step-size search from starts next to the support boundary
    let seeds: Vec<u64> = if ctx.tier.thorough() { (1..=6).collect() } else { vec![1, 2] };
    let mut runs = vec![];
    for ti in 0..tg.len() {
        for si in 0..2 {
            for &s in &seeds {
                runs.push((ti, si, s));
            }
        }
    }
    runs.par_iter().for_each(|&(ti, si, seed)| {
        let (target, starts, tname) = (&tg[ti].0, &tg[ti].1, tg[ti].2);
        let rt = gt_ref(target);
        let f = |x: f64| T::from(x).unwrap();
        let case = json!({"sampler": "NUTS-run", "backend": name, "target": tname, "start": starts[si], "seed": seed});
        ctx.evals(1);
        let mut chain = NUTSChain::<T, B, AnyGT<T>>::new(target.clone(), starts[si].iter().map(|x| f(*x)).collect(), f(0.8)).set_seed(seed);
        let (r, rec) = record_with(Script { prefix: vec![], momenta: vec![], f32_scalar: f32b, inject: false, keep: Some(&["nuts.end"]), max_leaves: 1 << 13, init_momentum: None }, || {
            chain.run(6, 4);
        });
        match r {
            Err(m) if m.contains("runaway tree") => {
                ctx.outcome("NUTS-run: cut off (a transition needed more than 2^13 leapfrog steps)", 1);
                ctx.cap(&format!("NUTS run on {tname} seed {seed}: {m}"));
            }
            Err(m) => ctx.violation(Violation::new("C14:panic(NUTS)", format!("NUTSChain::run panicked on {tname} from {:?} (seed {seed}): {m}", starts[si]), case)),
            Ok(()) => {
                let mut prev: Vec<f64> = starts[si].iter().map(|x| if f32b { (*x as f32) as f64 } else { *x }).collect();
                for (_, e) in rec.events.iter() {
                    let pos = e[5..].to_vec();
                    ctx.transitions(1);
                    let unchanged = pos.iter().map(|x| x.to_bits()).eq(prev.iter().map(|x| x.to_bits()));
                    let lp = (rt.f)(&pos);
                    if !unchanged && !(lp.is_finite() && pos.iter().all(|x| x.is_finite())) {
                        ctx.violation(Violation::new("C14:nuts-moved-to-bad-state", format!("NUTS run moved from {prev:?} to {pos:?} whose log-density is {lp} ({tname}, seed {seed})"), case.clone()));
                        break;
                    }
                    prev = pos;
                }
                ctx.outcome("NUTS-run: completed", 1);
            }
        }
    });
    // the initial step-size search (Algorithm 4 + the implementation's halving loop) with EVERY initial momentum of an
    // alphabet forced through `nuts.init_momentum`: from starts next to the support boundary the unit trial step leaves
    // the domain (NaN density and, for sqrt, NaN gradient). The search has no hook inside: a search that never ends is
    // caught by the targets' evaluation budget (a legitimate search needs < 2^12 evaluations, the transition that
    // follows at most 2^12 leaves).
    let mut tg2 = tg.clone();
    tg2.push((AnyGT::SqrtDom, vec![vec![0.3], vec![1e-3]], "SqrtDom(1)"));
    tg2.push((AnyGT::NanPocket, vec![vec![0.9], vec![1.44]], "NanPocket(1)"));
    let ma: Vec<f64> = if ctx.tier.thorough() { vec![-1e3, -3.0, -1.5, -0.6, -0.1, 0.1, 0.6, 1.5, 3.0, 1e3] } else { vec![-3.0, -1.5, -0.3, 0.3, 1.5, 3.0] };
    let mut jobs2 = vec![];
    for ti in 0..tg2.len() {
        for si in 0..2 {
            let d = tg2[ti].1[si].len();
            for i in 0..ma.len().pow(d as u32) {
                let mut k = i;
                let m: Vec<f64> = (0..d).map(|_| { let v = ma[k % ma.len()]; k /= ma.len(); v }).collect();
                jobs2.push((ti, si, m));
            }
        }
    }
    jobs2.par_iter().for_each(|(ti, si, m)| {
        let (target, starts, tname) = (&tg2[*ti].0, &tg2[*ti].1, tg2[*ti].2);
        let rt = gt_ref(target);
        let f = |x: f64| T::from(x).unwrap();
        let start = &starts[*si];
        let case = json!({"sampler": "NUTS-search", "backend": name, "target": tname, "start": start, "init_momentum": m});
        ctx.evals(1);
        ctx.transitions(1);
        let mut chain = NUTSChain::<T, B, AnyGT<T>>::new(target.clone(), start.iter().map(|x| f(*x)).collect(), f(0.8)).set_seed(3);
        let (r, rec) = crate::props::nutsref::with_eval_budget(1 << 14, || {
            record_with(Script { prefix: vec![], momenta: vec![], f32_scalar: f32b, inject: false, keep: Some(&["nuts.end", "nuts.init"]), max_leaves: 1 << 12, init_momentum: Some(m.clone()) }, || {
                chain.run(2, 0);
            })
        });
        match r {
            Err(e) if e.contains("runaway tree") => {
                ctx.outcome("NUTS-search: first transition cut off (more than 2^12 leapfrog steps)", 1);
                ctx.cap(&format!("NUTS search case {tname} {start:?} {m:?}: first transition cut off"));
            }
            Err(e) if e.contains("runaway evaluations") => ctx.violation(Violation::new(
                "C14:hang(NUTS step-size search)",
                format!("the initial step-size search on {tname} from {start:?} with initial momentum {m:?} does not terminate (more than 2^14 target evaluations before the first transition ended)"),
                case,
            )),
            Err(e) => ctx.violation(Violation::new("C14:panic(NUTS)", format!("NUTSChain::run panicked during the step-size search on {tname} from {start:?} (momentum {m:?}): {e}"), case)),
            Ok(()) => {
                let eps0 = rec.events.iter().find(|(l, _)| l == "nuts.init").map(|(_, e)| e[0]).unwrap_or(f64::NAN);
                if !(eps0 > 0.0 && eps0.is_finite()) {
                    ctx.violation(Violation::new("C14:search-step-size", format!("the step-size search on {tname} from {start:?} with momentum {m:?} ends with step size {eps0}"), case.clone()));
                }
                let start_r: Vec<f64> = start.iter().map(|x| if f32b { (*x as f32) as f64 } else { *x }).collect();
                for (l, e) in rec.events.iter() {
                    if l != "nuts.end" {
                        continue;
                    }
                    let pos = e[5..].to_vec();
                    let unchanged = pos.iter().map(|x| x.to_bits()).eq(start_r.iter().map(|x| x.to_bits()));
                    let lp = (rt.f)(&pos);
                    if !unchanged && !(lp.is_finite() && pos.iter().all(|x| x.is_finite())) {
                        ctx.violation(Violation::new("C14:nuts-moved-to-bad-state", format!("after the step-size search NUTS moved from {start_r:?} to {pos:?} whose log-density is {lp} ({tname}, initial momentum {m:?})"), case.clone()));
                    }
                }
                let (x1, _, lp1, _) = super::c04::leap_pub(&rt, &start_r, m, 1.0);
                if !lp1.is_finite() || (rt.g)(&x1).iter().any(|v| !v.is_finite()) {
                    ctx.outcome("NUTS-search: unit trial step leaves the domain", 1);
                }
                ctx.outcome("NUTS-search: completed", 1);
            }
        }
    });
}

pub fn run(ctx: &Ctx) {
    ctx.rule("invariant checked after EVERY transition of every explored execution: the new state is bit-identical to the previous one, or has finite coordinates and a finite log-density under the harness's own copy of the target. MH: 5 bounded-support / NaN-region targets x 12 starts x 17 scripted candidates (outside the support, on the boundary, +-inf, NaN, 1e308) x symmetric/asymmetric proposal x u in {1, 2 grid units, 1/2, 1-ulp}; HMC: targets {ln x, sqrt-domain, box, quartic, Student-t} x step sizes {0.1,1,10,1e10,1e30,MAX} x L {1,3} x momenta grid incl. +-1e3 x u {1e-30,1/2,1-ulp} x batches of 1, 2 (and 3) chains, two consecutive steps, f32 and f64 backends; NUTS: E1 choice exploration (as C03) on {ln x, sqrt-domain, box, quartic, funnel} with step sizes up to overflow, deviation bound 1-3, plus whole runs (step-size search included) from starts next to the support boundary, plus the step-size search alone under EVERY initial momentum of {+-0.3,+-1.5,+-3}^d (thorough: 10 values incl. +-1e3) forced through the hook, non-termination caught by an evaluation budget inside the harness targets. states = distinct configurations; transitions = real transitions executed");
    mh_part(ctx);
    hmc_part::<f64, BF64>(ctx, "f64 / NdArray<f64>", false);
    hmc_part::<f32, BF32>(ctx, "f32 / NdArray<f32>", true);
    nuts_part::<f64, BF64>(ctx, "f64 / NdArray<f64>", false);
    nuts_part::<f32, BF32>(ctx, "f32 / NdArray<f32>", true);
    ctx.assume("acceptance draws equal to exactly 0 are excluded by the statement; a NUTS transition that needs more than 2^12 leapfrog steps in these configurations is reported as a hang");
    for k in ["MH:stayed", "MH:moved-to-valid", "HMC:stayed", "HMC:moved-to-valid", "HMC:NaN-energy-candidate", "NUTS:stayed", "NUTS:moved-to-valid", "NUTS:NaN-joint-leaf", "NUTS-search: unit trial step leaves the domain", "NUTS-search: completed"] {
        if ctx.outcome_count(k) == 0 {
            ctx.machinery_error(format!("vacuity guard: outcome class '{k}' never observed"));
        }
    }
}

pub fn check_case(ctx: &Ctx, case: &Value) {
    match case["sampler"].as_str() {
        Some("MH") => mh_part(ctx),
        Some("HMC") => {
            if case["backend"].as_str().map(|s| s.starts_with("f32")).unwrap_or(false) {
                hmc_part::<f32, BF32>(ctx, "f32 / NdArray<f32>", true)
            } else {
                hmc_part::<f64, BF64>(ctx, "f64 / NdArray<f64>", false)
            }
        }
        _ => {
            if case["backend"].as_str().map(|s| s.starts_with("f32")).unwrap_or(false) {
                nuts_part::<f32, BF32>(ctx, "f32 / NdArray<f32>", true)
            } else {
                nuts_part::<f64, BF64>(ctx, "f64 / NdArray<f64>", false)
            }
        }
    }
}
