//! C09 — run(): shape, chain order, burn-in discard, continuation; exact number of transitions.
use crate::burnutil::*;
use crate::common::*;
use crate::zoo::*;
use mini_mcmc::core::{ChainRunner, HasChains, MarkovChain};
use mini_mcmc::verif;
use rayon::prelude::*;
use serde_json::{json, Value};
use std::cell::RefCell;
use std::rc::Rc;

// ------------------------------------------------------------------ counting chain (user-defined MarkovChain / HasChains)

#[derive(Clone, Debug, PartialEq)]
struct CountChain {
    id: usize,
    count: u64,
    state: Vec<f64>,
}
fn state_of(id: usize, count: u64, dim: usize) -> Vec<f64> {
    (0..dim).map(|k| match k { 0 => id as f64, 1 => count as f64, _ => (id * 1000) as f64 + count as f64 * 0.5 + k as f64 }).collect()
}
fn state1(id: usize, count: u64) -> f64 {
    // dim == 1: encode both in one number
    id as f64 * 1_000_000.0 + count as f64
}
impl CountChain {
    fn new(id: usize, dim: usize) -> Self {
        let state = if dim == 1 { vec![state1(id, 0)] } else { state_of(id, 0, dim) };
        CountChain { id, count: 0, state }
    }
}
impl MarkovChain<f64> for CountChain {
    fn step(&mut self) -> &Vec<f64> {
        self.count += 1;
        let dim = self.state.len();
        self.state = if dim == 1 { vec![state1(self.id, self.count)] } else { state_of(self.id, self.count, dim) };
        &self.state
    }
    fn current_state(&self) -> &Vec<f64> {
        &self.state
    }
}
#[derive(Clone)]
struct CountSampler {
    chains: Vec<CountChain>,
}
impl HasChains<f64> for CountSampler {
    type Chain = CountChain;
    fn chains_mut(&mut self) -> &mut Vec<CountChain> {
        &mut self.chains
    }
}

fn count_history(ctx: &Ctx, s: &CountSampler, prior: u64, hist: &mut Vec<(usize, usize)>, depth: usize, alphabet: &[(usize, usize)], dim: usize) {
    if depth == 0 {
        return;
    }
    let n_chains = s.chains.len();
    for &(c, d) in alphabet {
        hist.push((c, d));
        let case = json!({"kind": "count", "n_chains": n_chains, "dim": dim, "history": hist});
        let mut child = s.clone();
        ctx.evals(1);
        ctx.transitions(1);
        // more chains than worker threads must not matter: histories of multi-chain samplers also run inside a small private pool
        let r = if n_chains >= 3 && hist.len() % 2 == 1 {
            let pool = rayon::ThreadPoolBuilder::new().num_threads(2 + (n_chains % 2)).build().expect("rayon pool");
            catch(|| pool.install(|| child.run(c, d)))
        } else {
            catch(|| child.run(c, d))
        };
        let mut ok = true;
        match r {
            Err(m) => {
                ctx.violation(Violation::new("C09:panic(run)", format!("run({c},{d}) panicked after history {hist:?}: {m}"), case.clone()));
                ok = false;
            }
            Ok(Err(e)) => {
                ctx.violation(Violation::new("C09:error(run)", format!("run({c},{d}) failed: {e}"), case.clone()));
                ok = false;
            }
            Ok(Ok(out)) => {
                if out.shape() != [n_chains, c, dim] {
                    ctx.violation(Violation::new("C09:shape", format!("run({c},{d}) returned shape {:?}, expected [{n_chains},{c},{dim}]", out.shape()), case.clone()));
                    ok = false;
                } else {
                    'outer: for ch in 0..n_chains {
                        for k in 0..c {
                            let want_count = prior + d as u64 + k as u64 + 1;
                            let want = if dim == 1 { vec![state1(ch, want_count)] } else { state_of(ch, want_count, dim) };
                            let got: Vec<f64> = (0..dim).map(|j| out[[ch, k, j]]).collect();
                            if got != want {
                                let (gid, gcount) = if dim == 1 { ((got[0] / 1e6).floor(), got[0] % 1e6) } else { (got[0], got[1]) };
                                ctx.violation(Violation::new(
                                    "C09:row-content",
                                    format!("run({c},{d}) after {prior} prior transitions: row {ch} entry {k} holds chain {gid}'s state after {gcount} transitions; expected chain {ch} after {want_count}"),
                                    case.clone(),
                                ));
                                ok = false;
                                break 'outer;
                            }
                        }
                    }
                }
                for (i, chn) in child.chains.iter().enumerate() {
                    let want = prior + (c + d) as u64;
                    if chn.count != want {
                        ctx.violation(Violation::new("C09:transition-count", format!("run({c},{d}) performed {} transitions on chain {i}, exactly {} are needed", chn.count - prior, c + d), case.clone()));
                        ok = false;
                        break;
                    }
                }
            }
        }
        if ok {
            if hist.len() >= 2 {
                ctx.sample_tagged("history of run calls (counting chain)", || json!({"input": case.clone(), "transitions_before_last_call": prior, "checked": "shape, row<->chain, entry k = state after prior+n_discard+k+1 transitions, exact transition count"}));
            }
            ctx.state(hash_of(&(n_chains, dim, hist.clone())));
            if c + d > 0 {
                ctx.distinct(hash_of(&(n_chains, dim, hist.clone())));
            }
            count_history(ctx, &child, prior + (c + d) as u64, hist, depth - 1, alphabet, dim);
        }
        hist.pop();
    }
}

fn counting(ctx: &Ctx) {
    let full: Vec<(usize, usize)> = (0..=6).flat_map(|c| (0..=6).map(move |d| (c, d))).collect();
    let small: Vec<(usize, usize)> = [0usize, 1, 2, 5].iter().flat_map(|c| [0usize, 1, 3].iter().map(move |d| (*c, *d))).collect();
    // (n_chains, dim, depth, alphabet)
    let mut plans: Vec<(usize, usize, usize, &Vec<(usize, usize)>)> = vec![];
    for &n in &[1usize, 2, 3, 5, 8, 32] {
        for &dim in &[1usize, 2, 16] {
            let big = n > 3 || dim > 2;
            let (depth, alpha) = if ctx.tier.thorough() { if n * dim > 64 { (2, &full) } else { (3, &full) } } else if big { (1, &full) } else { (2, &full) };
            plans.push((n, dim, depth, alpha));
            if !ctx.tier.thorough() && !big {
                plans.push((n, dim, 3, &small));
            }
        }
    }
    ctx.extra("counting_plans", json!(plans.iter().map(|(n, d, depth, a)| format!("{n} chains x dim {d}: all histories of <= {depth} run calls over {} (n_collect,n_discard) pairs", a.len())).collect::<Vec<_>>()));
    plans.par_iter().for_each(|(n, dim, depth, alpha)| {
        let s = CountSampler { chains: (0..*n).map(|i| CountChain::new(i, *dim)).collect() };
        count_history(ctx, &s, 0, &mut vec![], *depth, alpha, *dim);
    });
}

// ------------------------------------------------------------------ real samplers: continuation = one longer run

fn concat_rows(n_chains: usize, dim: usize, parts: &[(usize, Vec<f64>)]) -> Vec<f64> {
    // parts: (n_rows, flat [n_chains, n_rows, dim]) -> flat [n_chains, sum rows, dim]
    let mut out = vec![];
    for ch in 0..n_chains {
        for (rows, flat) in parts {
            out.extend_from_slice(&flat[ch * rows * dim..(ch + 1) * rows * dim]);
        }
    }
    out
}

fn bits(v: &[f64]) -> Vec<u64> {
    v.iter().map(|x| x.to_bits()).collect()
}

fn continuation(ctx: &Ctx) {
    let lim = ctx.tier.pick(2usize, 3);
    let mut abd = vec![];
    for a in 0..=lim {
        for b in 0..=lim {
            for d in 0..=lim {
                abd.push((a, b, d));
            }
        }
    }
    abd.par_iter().for_each(|&(a, b, d)| {
        for n in [1usize, 3] {
            let seed = 11u64;
            // ---- MH
            {
                let case = json!({"kind": "continuation", "sampler": "MH", "a": a, "b": b, "d": d, "n_chains": n});
                ctx.evals(1);
                ctx.transitions(3);
                let r = catch(|| {
                    let mut s1 = mh_build(n, Some(seed), false);
                    let r1: Vec<f64> = s1.run(a, d).unwrap().iter().cloned().collect();
                    let r2: Vec<f64> = s1.run(b, 0).unwrap().iter().cloned().collect();
                    let mut s2 = mh_build(n, Some(seed), false);
                    let r: Vec<f64> = s2.run(a + b, d).unwrap().iter().cloned().collect();
                    // manual stepping of a third copy
                    let mut s3 = mh_build(n, Some(seed), false);
                    let mut manual = vec![];
                    for ch in s3.chains.iter_mut() {
                        for i in 0..(a + b + d) {
                            let st = ch.step().clone();
                            if i >= d {
                                manual.extend(st);
                            }
                        }
                    }
                    let last: Vec<f64> = s2.chains.iter().flat_map(|c| c.current_state.clone()).collect();
                    (concat_rows(n, 2, &[(a, r1), (b, r2)]), r, manual, last)
                });
                report_cont(ctx, "MH", r, n, 2, a + b, &case);
            }
            // ---- Gibbs
            {
                let case = json!({"kind": "continuation", "sampler": "Gibbs", "a": a, "b": b, "d": d, "n_chains": n});
                ctx.evals(1);
                ctx.transitions(3);
                let r = catch(|| {
                    let mut s1 = gibbs_build(n, Some(seed));
                    let r1: Vec<f64> = s1.run(a, d).unwrap().iter().cloned().collect();
                    let r2: Vec<f64> = s1.run(b, 0).unwrap().iter().cloned().collect();
                    let mut s2 = gibbs_build(n, Some(seed));
                    let r: Vec<f64> = s2.run(a + b, d).unwrap().iter().cloned().collect();
                    let mut s3 = gibbs_build(n, Some(seed));
                    let mut manual = vec![];
                    for ch in s3.chains.iter_mut() {
                        for i in 0..(a + b + d) {
                            let st = ch.step().clone();
                            if i >= d {
                                manual.extend(st);
                            }
                        }
                    }
                    let last: Vec<f64> = s2.chains.iter().flat_map(|c| c.current_state.clone()).collect();
                    (concat_rows(n, 3, &[(a, r1), (b, r2)]), r, manual, last)
                });
                report_cont(ctx, "Gibbs", r, n, 3, a + b, &case);
            }
            macro_rules! hmc_cont {
                ($T:ty, $B:ty, $name:expr) => {{
            // ---- HMC (f64 backend; n_collect >= 1 on each call: an empty tensor cannot be built by the backend)
            {
                let case = json!({"kind": "continuation", "sampler": $name, "a": a, "b": b, "d": d, "n_chains": n});
                ctx.evals(1);
                ctx.transitions(3);
                let r = catch(|| {
                    let mut s1 = hmc_build::<$T, $B>(n, Some(seed), false);
                    let t1 = s1.run(a, d);
                    let t2 = s1.run(b, 0);
                    let (d1, d2) = (t1.dims(), t2.dims());
                    let mut s2 = hmc_build::<$T, $B>(n, Some(seed), false);
                    let t = s2.run(a + b, d);
                    let dt = t.dims();
                    let mut s3 = hmc_build::<$T, $B>(n, Some(seed), false);
                    let mut per_step: Vec<Vec<Vec<f64>>> = vec![];
                    for i in 0..(a + b + d) {
                        s3.step();
                        if i >= d {
                            per_step.push(rows(&s3.positions));
                        }
                    }
                    let mut manual = vec![];
                    for ch in 0..n {
                        for st in per_step.iter() {
                            manual.extend(st[ch].clone());
                        }
                    }
                    let last: Vec<f64> = v(&s2.positions);
                    if d1 != [n, a, 2] || d2 != [n, b, 2] || dt != [n, a + b, 2] {
                        panic!("shape: run({a},{d}) -> {d1:?}, run({b},0) -> {d2:?}, run({},{d}) -> {dt:?}", a + b);
                    }
                    (concat_rows(n, 2, &[(a, v(&t1)), (b, v(&t2))]), v(&t), manual, last)
                });
                report_cont(ctx, $name, r, n, 2, a + b, &case);
            }
                }};
            }
            hmc_cont!(f64, BF64, "HMC");
            // scalar type narrower than the backend float: the sampler state lives in the backend's precision between runs
            if n <= 2 {
                hmc_cont!(f32, BF64, "HMC<f32,NdArray<f64>>");
            }
        }
    });
}

fn report_cont(ctx: &Ctx, name: &str, r: Result<(Vec<f64>, Vec<f64>, Vec<f64>, Vec<f64>), String>, n: usize, dim: usize, total_rows: usize, case: &Value) {
    match r {
        Err(m) => {
            let key = if m.starts_with("shape:") { format!("C09:shape({name})") } else { format!("C09:panic({name})") };
            ctx.violation(Violation::new(key, format!("{name} {case}: {m}"), case.clone()));
        }
        Ok((two, one, manual, last)) => {
            if one.len() != n * total_rows * dim {
                ctx.violation(Violation::new(format!("C09:shape({name})"), format!("{name}: run returned {} values, expected {}", one.len(), n * total_rows * dim), case.clone()));
                return;
            }
            if bits(&two) != bits(&one) {
                ctx.violation(Violation::new(format!("C09:continuation({name})"), format!("{name}: run(a,d); run(b,0) differs from run(a+b,d) on an identically built sampler ({case})"), case.clone()));
            }
            if bits(&manual) != bits(&one) {
                ctx.violation(Violation::new(format!("C09:run-vs-step({name})"), format!("{name}: run(a+b,d) differs from stepping the chains by hand (discard d, keep a+b) ({case})"), case.clone()));
            }
            if total_rows > 0 {
                // sampler left at the last returned state
                let mut want = vec![];
                for ch in 0..n {
                    want.extend_from_slice(&one[(ch * total_rows + total_rows - 1) * dim..(ch * total_rows + total_rows) * dim]);
                }
                if bits(&want) != bits(&last) {
                    ctx.violation(Violation::new(format!("C09:left-at-last-state({name})"), format!("{name}: after run the sampler is not at the last returned state ({case})"), case.clone()));
                }
            }
            ctx.outcome(&format!("{name}:continuation-checked"), 1);
            ctx.sample_tagged(&format!("continuation {name}"), || json!({"input": case.clone(), "first_values_of_run(a+b,d)": jfs(&one[..one.len().min(4)])}));
            ctx.distinct(hash_str(&case.to_string()));
        }
    }
}

// ------------------------------------------------------------------ NUTS: rows vs per-transition positions

fn nuts_rows(ctx: &Ctx) {
    // histories of 1..2 (quick) / 3 (thorough) run calls on ONE chain; every call is checked completely
    let alpha: Vec<(usize, usize)> = if ctx.tier.thorough() { vec![(1, 0), (2, 0), (3, 1), (1, 3), (4, 2), (2, 5)] } else { vec![(1, 0), (2, 0), (3, 1), (1, 3), (4, 2)] };
    let depth = ctx.tier.pick(2usize, 3);
    let mut jobs: Vec<Vec<(usize, usize)>> = vec![];
    for l in 1..=depth {
        for idx in 0..alpha.len().pow(l as u32) {
            let mut i = idx;
            jobs.push((0..l).map(|_| { let x = alpha[i % alpha.len()]; i /= alpha.len(); x }).collect());
        }
    }
    jobs.par_iter().for_each(|hist| {
        let case = json!({"kind": "nuts-rows", "history": hist});
        ctx.evals(1);
        let r = catch(|| {
            let mut s = nuts_build::<f64, BF64>(1, Some(5), false);
            let mut per_run = vec![];
            for &(c, d) in hist.iter() {
                let rec: Rc<RefCell<Vec<Vec<f64>>>> = Rc::new(RefCell::new(vec![]));
                let r2 = rec.clone();
                let prev = verif::set_tap(Some(Box::new(move |label, vals| {
                    if label == "nuts.end" {
                        r2.borrow_mut().push(vals[5..].to_vec());
                    }
                })));
                let before = v(&s.verif_chains_mut()[0].position);
                let out = s.verif_chains_mut()[0].run(c, d);
                verif::set_tap(prev);
                let after = v(&s.verif_chains_mut()[0].position);
                per_run.push((c, d, before, rows(&out), rec.borrow().clone(), after));
            }
            per_run
        });
        match r {
            Err(m) => ctx.violation(Violation::new("C09:panic(NUTS)", format!("NUTSChain::run panicked in history {hist:?}: {m}"), case)),
            Ok(per_run) => {
                let mut last_row: Option<Vec<f64>> = None;
                for (ri, (c, d, before, out, recs, after)) in per_run.iter().enumerate() {
                    let (c, d) = (*c, *d);
                    ctx.transitions((c + d) as u64);
                    if out.len() != c || out.iter().any(|r| r.len() != 2) {
                        ctx.violation(Violation::new("C09:shape(NUTS)", format!("history {hist:?}, call #{ri}: NUTSChain::run({c},{d}) returned {} rows", out.len()), case.clone()));
                        return;
                    }
                    if recs.len() != c + d - 1 {
                        ctx.violation(Violation::new("C09:transition-count(NUTS)", format!("history {hist:?}, call #{ri}: NUTSChain::run({c},{d}) performed {} transitions; exactly {} are needed", recs.len(), c + d - 1), case.clone()));
                        return;
                    }
                    if let Some(lr) = &last_row {
                        if bits(lr) != bits(before) {
                            ctx.violation(Violation::new("C09:left-at-last-state(NUTS)", format!("history {hist:?}: call #{ri} does not start from the last state returned by the previous call"), case.clone()));
                            return;
                        }
                    }
                    for k in 0..c {
                        let t = d + k; // state after t transitions of THIS call
                        let want = if t == 0 { before.clone() } else { recs[t - 1].clone() };
                        if bits(&out[k]) != bits(&want) {
                            ctx.violation(Violation::new("C09:row-content(NUTS)", format!("history {hist:?}, call #{ri}: NUTSChain::run({c},{d}) row {k} is not the chain's state after {t} transitions of this call ({:?} vs {:?})", out[k], want), case.clone()));
                            return;
                        }
                    }
                    if bits(after) != bits(&out[c - 1]) {
                        ctx.violation(Violation::new("C09:left-at-last-state(NUTS)", format!("history {hist:?}, call #{ri}: after run the chain is not at the last returned state"), case.clone()));
                        return;
                    }
                    last_row = Some(out[c - 1].clone());
                }
                ctx.outcome("NUTS:rows-checked", 1);
                ctx.distinct(hash_str(&case.to_string()));
            }
        }
    });
    // multi-chain runner == its chains run individually
    // (n chains, worker threads of the pool the call runs in; 0 = the global pool). More chains than workers is a
    // configuration of its own (chains are then processed in waves), so it is enumerated on both sides:
    // pools of 1 and 2 workers, and the global pool with T+1 / T+3 chains.
    let t_glob = rayon::current_num_threads();
    let mut ns: Vec<(usize, usize)> = if ctx.tier.thorough() { (1..=8).map(|n| (n, 0)).collect() } else { vec![(1, 0), (2, 0), (3, 0), (8, 0)] };
    ns.extend([(t_glob + 1, 0), (t_glob + 3, 0), (2, 1), (3, 1), (3, 2), (5, 2)]);
    if ctx.tier.thorough() {
        ns.extend([(2 * t_glob + 1, 0), (1, 1), (4, 1), (2, 2), (4, 2), (8, 2), (4, 3), (7, 3)]);
    }
    ns.par_iter().for_each(|&(n, pool_threads)| {
        let pool = if pool_threads > 0 { rayon::ThreadPoolBuilder::new().num_threads(pool_threads).build().ok() } else { None };
        if pool_threads > 0 && pool.is_none() {
            ctx.machinery_error("cannot build a rayon pool for the NUTS runner check");
            return;
        }
        ctx.outcome(if n > if pool_threads > 0 { pool_threads } else { t_glob } { "NUTS runner: more chains than pool workers" } else { "NUTS runner: chains <= pool workers" }, 1);
        for (c, d, common) in [(3usize, 2usize, false), (1, 0, false), (2, 0, true), (4, 3, true), (3, 2, true)] {
            let case = json!({"kind": "nuts-multi", "n_chains": n, "pool_threads": pool_threads, "n_collect": c, "n_discard": d, "common_start": common});
            ctx.evals(1);
            ctx.transitions(2);
            let in_pool = |f: &mut (dyn FnMut() -> ([usize; 3], Vec<f64>, Vec<f64>) + Send)| match &pool {
                Some(p) => p.install(|| f()),
                None => f(),
            };
            let r = catch(|| in_pool(&mut || {
                let mut a = nuts_build::<f64, BF64>(n, Some(9), common);
                let mut b = a.clone();
                let ta = a.run(c, d);
                let dims = ta.dims();
                let mut solo = vec![];
                for ch in b.verif_chains_mut().iter_mut() {
                    solo.extend(v(&ch.run(c, d)));
                }
                // and once more on the same runner (continuation of every chain)
                let tb = a.run(2, 0);
                let mut solo2 = vec![];
                for ch in b.verif_chains_mut().iter_mut() {
                    solo2.extend(v(&ch.run(2, 0)));
                }
                let mut multi = v(&ta);
                multi.extend(v(&tb));
                solo.extend(solo2);
                (dims, multi, solo)
            }));
            match r {
                Err(m) => ctx.violation(Violation::new("C09:panic(NUTS)", format!("NUTS::run({c},{d}) with {n} chains panicked: {m}"), case)),
                Ok((dims, multi, solo)) => {
                    if dims != [n, c, 2] {
                        ctx.violation(Violation::new("C09:shape(NUTS)", format!("NUTS::run({c},{d}) with {n} chains returned shape {dims:?}"), case.clone()));
                    } else if bits(&multi) != bits(&solo) {
                        ctx.violation(Violation::new("C09:nuts-runner-vs-chains", format!("NUTS::run({c},{d}) with {n} chains differs from its chains run individually (order or content)"), case.clone()));
                    } else {
                        ctx.outcome("NUTS:runner==chains", 1);
                    }
                }
            }
        }
    });
}

/// "row c belongs to the c-th initial state": right after construction (and seeding) every chain of every
/// sampler must sit at the initial state it was given, and the first returned row must belong to it.
fn initial_states(ctx: &Ctx) {
    use mini_mcmc::core::init_det;
    for n in [1usize, 2, 3, 5, 8] {
        for seeded in [false, true] {
            let case = json!({"kind": "initial-states", "n_chains": n, "seeded": seeded});
            ctx.evals(1);
            ctx.transitions(4);
            // MH
            let inits = init_det::<f64>(n, 2);
            let s = mh_build(n, if seeded { Some(3) } else { None }, false);
            for c in 0..n {
                if s.chains[c].current_state != inits[c] {
                    ctx.violation(Violation::new("C09:initial-state(MH)", format!("MH chain {c} of {n} does not start at its initial state (seeded: {seeded})"), case.clone()));
                }
            }
            // Gibbs: distinct initial states per chain
            let g = gibbs_build(n, if seeded { Some(3) } else { None });
            for c in 0..n {
                let want = vec![c as f64 * 0.5, -1.0, 2.0];
                if g.chains[c].current_state != want {
                    ctx.violation(Violation::new("C09:initial-state(Gibbs)", format!("Gibbs chain {c} of {n} starts at {:?}, its initial state is {want:?} (seeded: {seeded})", g.chains[c].current_state), case.clone()));
                }
            }
            // HMC / NUTS
            let h = hmc_build::<f64, BF64>(n, if seeded { Some(3) } else { None }, false);
            let hr = rows(&h.positions);
            for c in 0..n {
                let want = vec![0.5 + 0.1 * c as f64, 0.5 - 0.05 * c as f64];
                if hr[c] != want {
                    ctx.violation(Violation::new("C09:initial-state(HMC)", format!("HMC row {c} of {n} starts at {:?}, its initial position is {want:?}", hr[c]), case.clone()));
                }
            }
            let mut nu = nuts_build::<f64, BF64>(n, if seeded { Some(3) } else { None }, false);
            let first = catch(|| cube(&nu.run(1, 0)));
            for (c, ch) in nu.verif_chains_mut().iter().enumerate() {
                let _ = (c, ch);
            }
            if let Ok(first) = first {
                for c in 0..n {
                    let want = vec![0.3 + 0.2 * c as f64, 0.7 - 0.1 * c as f64];
                    if first[c][0] != want {
                        ctx.violation(Violation::new("C09:initial-state(NUTS)", format!("NUTS::run(1,0) row {c} of {n} is {:?}, the chain's initial position is {want:?}", first[c][0]), case.clone()));
                    }
                }
            }
            ctx.outcome("initial-state configurations", 1);
        }
    }
}

pub fn run(ctx: &Ctx) {
    ctx.rule("(A) E3: counting MarkovChain under ChainRunner::run, ALL histories of run(n_collect,n_discard) calls with n_collect,n_discard in 0..6 up to the stated depth for n_chains {1,2,3,5,8,32} x dim {1,2,16}, against a counter model (shape, row<->chain, entry k = counter n_discard+k+1, exact transition count, continuation); (B) MH / Gibbs / HMC: run(a,d);run(b,0) == run(a+b,d) == manual stepping, bit for bit, all a,b,d in the stated cube, 1 and 3 chains; (C) NUTSChain rows vs recorded per-transition positions, exact transition count n_collect+n_discard-1, continuation, NUTS::run == its chains run individually. states = distinct (configuration, history) nodes; transitions = run() calls");
    initial_states(ctx);
    counting(ctx);
    continuation(ctx);
    nuts_rows(ctx);
    if ctx.outcome_count("HMC:continuation-checked") == 0 || ctx.outcome_count("NUTS:rows-checked") == 0 {
        ctx.machinery_error("vacuity guard: HMC / NUTS parts did not run");
    }
}

pub fn check_case(ctx: &Ctx, case: &Value) {
    match case["kind"].as_str() {
        Some("count") => {
            let n = case["n_chains"].as_u64().unwrap_or(1) as usize;
            let dim = case["dim"].as_u64().unwrap_or(1) as usize;
            let hist: Vec<(usize, usize)> = case["history"].as_array().map(|a| a.iter().map(|p| (p[0].as_u64().unwrap_or(0) as usize, p[1].as_u64().unwrap_or(0) as usize)).collect()).unwrap_or_default();
            // replay the exact history: alphabet restricted to each step in turn
            let mut s = CountSampler { chains: (0..n).map(|i| CountChain::new(i, dim)).collect() };
            let mut prior = 0u64;
            let mut h = vec![];
            for (i, step) in hist.iter().enumerate() {
                if i + 1 == hist.len() {
                    count_history(ctx, &s, prior, &mut h, 1, &[*step], dim);
                } else {
                    let _ = s.run(step.0, step.1);
                    prior += (step.0 + step.1) as u64;
                    h.push(*step);
                }
            }
        }
        Some("continuation") => continuation(ctx),
        Some("initial-states") => initial_states(ctx),
        _ => nuts_rows(ctx),
    }
}
