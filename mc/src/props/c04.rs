//! C04 — NUTS step size: dual averaging during warm-up, frozen afterwards; eps0 heuristic; persistence across runs.
use super::c02::RefT;
use super::nutsref::*;
use crate::burnutil::*;
use crate::common::*;
use crate::zoo::GaussND;
use burn::tensor::backend::AutodiffBackend;
use mini_mcmc::distributions::{DiffableGaussian2D, Rosenbrock2D};
use mini_mcmc::nuts::NUTSChain;
use num_traits::Float;
use rayon::prelude::*;
use serde_json::{json, Value};

const GAMMA: f64 = 0.05;
const T0: f64 = 10.0;
const KAPPA: f64 = 0.75;

pub fn leap_pub(rt: &RefT, x: &[f64], r: &[f64], eps: f64) -> (Vec<f64>, Vec<f64>, f64, bool) {
    leap(rt, x, r, eps)
}
fn leap(rt: &RefT, x: &[f64], r: &[f64], eps: f64) -> (Vec<f64>, Vec<f64>, f64, bool) {
    let g0 = (rt.g)(x);
    let d = x.len();
    let rh: Vec<f64> = (0..d).map(|k| r[k] + 0.5 * eps * g0[k]).collect();
    let x1: Vec<f64> = (0..d).map(|k| x[k] + eps * rh[k]).collect();
    let g1 = (rt.g)(&x1);
    let r1: Vec<f64> = (0..d).map(|k| rh[k] + 0.5 * eps * g1[k]).collect();
    let lp = (rt.f)(&x1);
    let real = lp.is_finite() && g1.iter().all(|v| v.is_finite());
    (x1, r1, lp, real)
}

/// The two published variants of the step-size heuristic, from the same start and initial momentum.
/// Returns (eps0 candidates, smallest margin of a threshold comparison).
fn eps0_candidates(rt: &RefT, x: &[f64], r: &[f64]) -> (Vec<f64>, f64) {
    let lp0 = (rt.f)(x);
    let k0 = 0.5 * r.iter().map(|v| v * v).sum::<f64>();
    let mut margin = f64::INFINITY;
    let mut la_of = |eps: f64, margin: &mut f64| -> f64 {
        let (_, r1, lp1, _) = leap(rt, x, r, eps);
        let la = lp1 - lp0 - (0.5 * r1.iter().map(|v| v * v).sum::<f64>() - k0);
        *margin = margin.min((la - 0.5f64.ln()).abs()).min((la + 2f64.ln()).abs()).min((la - 2f64.ln()).abs());
        la
    };
    let mut out = vec![];
    // Variant A: Hoffman & Gelman Algorithm 4
    {
        let mut eps = 1.0;
        let mut la = la_of(eps, &mut margin);
        let a = if la > 0.5f64.ln() { 1.0 } else { -1.0 };
        let mut it = 0;
        while a * la > -a * 2f64.ln() && it < 200 {
            eps *= 2f64.powf(a);
            la = la_of(eps, &mut margin);
            it += 1;
        }
        out.push(eps);
    }
    // Variant B: mfouesneau/NUTS (evaluate at eps=1, continue from eps/2); the back-off while the trial step is not
    // finite is taken in both readings ("log-density OR gradient non-finite", "log-density AND gradient non-finite")
    for both in [false, true] {
        let bad = |k: f64| -> bool {
            let (x1, _, lp1, _) = leap(rt, x, r, k);
            let g_bad = (rt.g)(&x1).iter().any(|v| !v.is_finite());
            if both { !lp1.is_finite() && g_bad } else { !lp1.is_finite() || g_bad }
        };
        let mut k = 1.0;
        let mut tries = 0;
        while bad(k) && tries < 200 {
            k *= 0.5;
            tries += 1;
        }
        let la0 = la_of(k, &mut margin);
        let mut eps = 0.5 * k;
        let a = if la0 > 0.5f64.ln() { 1.0 } else { -1.0 };
        let mut la = la0;
        let mut it = 0;
        while a * la > -a * 2f64.ln() && it < 200 {
            eps *= 2f64.powf(a);
            la = la_of(eps, &mut margin);
            it += 1;
        }
        out.push(eps);
    }
    (out, margin)
}

#[derive(Clone, Debug)]
struct Cfg {
    target: usize,
    delta: f64,
    seed: u64,
    runs: Vec<(usize, usize)>,
}

fn targets<T: Float + std::fmt::Debug + num_traits::FloatConst>() -> Vec<(AnyGT<T>, Vec<f64>, &'static str)> {
    let f = |x: f64| T::from(x).unwrap();
    vec![
        (AnyGT::Gauss2D(DiffableGaussian2D::new([f(0.0), f(1.0)], [[f(4.0), f(2.0)], [f(2.0), f(3.0)]])), vec![0.5, -0.5], "DiffableGaussian2D"),
        (AnyGT::Rosen2D(Rosenbrock2D { a: f(1.0), b: f(10.0) }), vec![0.2, 0.4], "Rosenbrock2D"),
        (AnyGT::GaussND(GaussND::new(3, 7)), vec![0.3, -0.2, 0.1], "GaussND(3)"),
        // targets with NaN regions: only the invariants (positive finite step size, recurrences where the
        // acceptance statistic is finite) are demanded; the eps0 variants are not compared
        (AnyGT::NanPocket, vec![0.9], "NanPocket(1)"),
        (AnyGT::NanPocket, vec![1.0, -0.5], "NanPocket(2)"),
        (AnyGT::LogX, vec![0.8, 1.2], "Gamma(2,1)^2"),
    ]
}

struct RunObs {
    n_collect: usize,
    n_discard: usize,
    init: Vec<f64>,        // nuts.init : eps, mu, m, n_collect, n_discard
    init_momentum: Vec<f64>,
    start_pos: Vec<f64>,
    trans: Vec<(f64, f64, f64, Vec<f64>)>, // alpha, n_alpha, eps_used, adapt state after
}

/// Execute a history of run() calls on one chain, recording the hook trace (no injection).
fn observe<T, B>(target: AnyGT<T>, start: &[f64], delta: f64, seed: u64, runs: &[(usize, usize)], f32s: bool, rt_for_verifier: Option<&RefT>, max_leaves: usize, init_momentum: Option<Vec<f64>>) -> Result<Vec<RunObs>, String>
where
    T: Float + burn::tensor::ElementConversion + burn::tensor::Element + rand_distr::uniform::SampleUniform + num_traits::FromPrimitive + std::fmt::Debug,
    B: AutodiffBackend,
    rand_distr::StandardNormal: rand::distr::Distribution<T>,
    rand_distr::StandardUniform: rand_distr::Distribution<T>,
    rand_distr::Exp1: rand_distr::Distribution<T>,
{
    let f = |x: f64| T::from(x).unwrap();
    let mut chain = NUTSChain::<T, B, AnyGT<T>>::new(target, start.iter().map(|x| f(*x)).collect(), f(delta)).set_seed(seed);
    let mut out = vec![];
    for &(c, d) in runs {
        let pos_before = v(&chain.position);
        // short runs are recorded completely so that every transition can also be replayed by the Algorithm-6
        // reference (ties the acceptance statistic that drives the adaptation to the true energy changes)
        let full = c + d <= 20;
        let keep: Option<&'static [&'static str]> = if full { None } else { Some(&["nuts.init_momentum", "nuts.init", "nuts.end", "nuts.adapt"]) };
        let (r, rec) = record_with(Script { prefix: vec![], momenta: vec![], f32_scalar: f32s, inject: false, keep, max_leaves, init_momentum: init_momentum.clone() }, || {
            chain.run(c, d);
        });
        r?;
        if full {
            if let Some(rt) = rt_for_verifier {
                for (i, (l, _)) in rec.events.iter().enumerate() {
                    if l == "nuts.momentum" {
                        let mut ver = Verifier::new(rt, f32s, f32s, &rec.events, i);
                        if let Err(f) = ver.transition() {
                            return Err(format!("ALG6 {}: {}", f.key, f.what));
                        }
                    }
                }
            }
        }
        let mut ro = RunObs { n_collect: c, n_discard: d, init: vec![], init_momentum: vec![], start_pos: pos_before, trans: vec![] };
        let mut pending: Option<(f64, f64, f64)> = None;
        for (l, e) in rec.events.iter() {
            match l.as_str() {
                "nuts.init_momentum" => ro.init_momentum = e.clone(),
                "nuts.init" => ro.init = e.clone(),
                "nuts.end" => pending = Some((e[0], e[1], e[2])),
                "nuts.adapt" => {
                    if let Some((a, n, eu)) = pending.take() {
                        ro.trans.push((a, n, eu, e.clone()));
                    }
                }
                _ => {}
            }
        }
        out.push(ro);
    }
    Ok(out)
}

struct Worst(f64);

/// Check one observed history against the dual-averaging recurrence.
#[allow(clippy::too_many_arguments)]
fn check_history(ctx: &Ctx, rt: &RefT, obs: &[RunObs], delta: f64, f32s: bool, case: &Value, tname: &str, worst: &std::sync::Mutex<Worst>) {
    let rel = if f32s { 2e-3 } else { 1e-9 };
    let mk = |key: &str, what: String| Violation::new(key, format!("{what} [{tname}, delta={delta}]"), case.clone());
    let mut m: f64 = 0.0; // persistent counter
    let mut eps_prev: f64 = f64::NAN;
    let mut eps_bar_prev: f64 = 1.0;
    let mut h_bar_prev: f64 = 0.0;
    for (ri, ro) in obs.iter().enumerate() {
        if ro.init.len() < 5 {
            ctx.machinery_error("nuts.init record missing");
            return;
        }
        let (eps_init, mu, m_init) = (ro.init[0], ro.init[1], ro.init[2]);
        ctx.transitions(1);
        if m_init != m {
            ctx.violation(mk("C04:counter", format!("run #{ri} starts with warm-up counter {m_init}, {m} transitions were performed before (the counter must persist across run calls)")));
            return;
        }
        if !(eps_init > 0.0 && eps_init.is_finite()) {
            ctx.violation(mk("C04:eps-range", format!("run #{ri} starts with step size {eps_init}")));
            return;
        }
        if ri == 0 {
            // eps0 from the doubling/halving heuristic at the start point; mu = ln(10 eps0)
            let (cands, margin) = eps0_candidates(rt, &ro.start_pos, &ro.init_momentum);
            if !margin.is_finite() || margin < if f32s { 1e-3 } else { 1e-7 } {
                ctx.outcome("eps0-ambiguous(threshold inside margin)", 1);
            } else if !cands.iter().any(|c| (c - eps_init).abs() <= 1e-12 * c) {
                ctx.violation(mk("C04:eps0-heuristic", format!("initial step size {eps_init} is neither variant of the doubling/halving heuristic ({cands:?}) for start {:?} and momentum {:?}", ro.start_pos, ro.init_momentum)));
            } else {
                ctx.outcome(&format!("eps0 = 2^{}", eps_init.log2().round()), 1);
            }
            let want_mu = (10.0 * eps_init).ln();
            if !((mu - want_mu).abs() <= rel * want_mu.abs().max(1.0)) {
                ctx.violation(mk("C04:shrinkage-point", format!("shrinkage point mu = {mu}, ln(10 eps0) = {want_mu}")));
            }
        } else if eps_init.to_bits() != eps_prev.to_bits() {
            ctx.violation(mk("C04:eps-across-runs", format!("run #{ri} starts with step size {eps_init} but the previous run ended with {eps_prev}")));
        }
        let mut eps_cur = eps_init;
        let mut frozen: Option<(f64, f64)> = None;
        for (ti, (alpha, n_alpha, eps_used, st)) in ro.trans.iter().enumerate() {
            ctx.transitions(1);
            m += 1.0;
            let (m_obs, eps, eps_bar, h_bar, mu_obs, nd_obs) = (st[0], st[1], st[2], st[3], st[4], st[5]);
            if eps_used.to_bits() != eps_cur.to_bits() {
                ctx.violation(mk("C04:step-size-used", format!("run #{ri} transition {ti}: trajectory built with step size {eps_used}, the current step size is {eps_cur}")));
                return;
            }
            if m_obs != m || nd_obs != ro.n_discard as f64 {
                ctx.violation(mk("C04:counter", format!("run #{ri} transition {ti}: counter {m_obs} (expected {m}), warm-up length {nd_obs} (expected {})", ro.n_discard)));
                return;
            }
            if mu_obs.to_bits() != mu.to_bits() {
                ctx.violation(mk("C04:shrinkage-point", format!("shrinkage point changed during a run: {mu_obs} vs {mu}")));
            }
            if !(eps > 0.0 && eps.is_finite() && eps_bar > 0.0 && eps_bar.is_finite()) {
                ctx.violation(mk("C04:eps-range", format!("run #{ri} transition {ti}: step size {eps}, averaged iterate {eps_bar}")));
                return;
            }
            // H-bar recurrence (always)
            let eta = 1.0 / (m + T0);
            let want_h = (1.0 - eta) * h_bar_prev + eta * (delta - alpha / n_alpha);
            let eh = (h_bar - want_h).abs() / want_h.abs().max(1e-3);
            // after warm-up the statement does not say whether H-bar keeps accumulating: both "updated by the recurrence"
            // and "left unchanged" are accepted there (during warm-up only the recurrence is)
            let frozen_ok = m > ro.n_discard as f64 && h_bar.to_bits() == h_bar_prev.to_bits();
            if alpha.is_finite() && !(eh <= rel * 10.0) && !frozen_ok {
                ctx.violation(mk("C04:h-bar", format!("run #{ri} transition {ti} (m={m}): H-bar {h_bar}, recurrence (1-1/(m+t0)) H + (delta - alpha/n_alpha)/(m+t0) gives {want_h} (alpha/n_alpha = {})", alpha / n_alpha)));
                return;
            }
            if m <= ro.n_discard as f64 {
                // warm-up: dual averaging
                let want_eps = (mu_obs - m.sqrt() / GAMMA * h_bar).exp();
                let w = m.powf(-KAPPA);
                let want_bar = ((1.0 - w) * eps_bar_prev.ln() + w * eps.ln()).exp();
                let e1 = (eps - want_eps).abs() / want_eps;
                let e2 = (eps_bar - want_bar).abs() / want_bar;
                {
                    let mut g = worst.lock().unwrap();
                    g.0 = g.0.max(e1 / rel).max(e2 / rel).max(eh / (rel * 10.0));
                }
                if !(e1 <= rel * (1.0 + m.sqrt() / GAMMA * h_bar.abs())) {
                    ctx.violation(mk("C04:dual-averaging-eps", format!("run #{ri} transition {ti} (m={m} <= warm-up {}): step size {eps}, exp(mu - sqrt(m)/gamma * H-bar) = {want_eps}", ro.n_discard)));
                    return;
                }
                if !(e2 <= rel * 10.0) {
                    ctx.violation(mk("C04:dual-averaging-eps-bar", format!("run #{ri} transition {ti} (m={m}): averaged iterate {eps_bar}, exp(m^-kappa ln eps + (1 - m^-kappa) ln eps_bar) = {want_bar}")));
                    return;
                }
                ctx.outcome("warm-up transitions checked", 1);
            } else {
                // after warm-up: eps == eps_bar bit for bit, never changes again during the run
                if eps.to_bits() != eps_bar.to_bits() {
                    ctx.violation(mk("C04:not-frozen", format!("run #{ri} transition {ti} (m={m} > warm-up {}): step size {eps} differs from the averaged iterate {eps_bar}", ro.n_discard)));
                    return;
                }
                if eps_bar.to_bits() != eps_bar_prev.to_bits() {
                    ctx.violation(mk("C04:not-frozen", format!("run #{ri} transition {ti} (m={m} > warm-up {}): averaged iterate changed from {eps_bar_prev} to {eps_bar} after warm-up", ro.n_discard)));
                    return;
                }
                if let Some((fe, _)) = frozen {
                    if fe.to_bits() != eps.to_bits() {
                        ctx.violation(mk("C04:not-frozen", format!("step size changed after warm-up: {fe} -> {eps}")));
                        return;
                    }
                }
                frozen = Some((eps, eps_bar));
                ctx.outcome("post-warm-up transitions checked", 1);
            }
            eps_cur = eps;
            eps_bar_prev = eps_bar;
            h_bar_prev = h_bar;
        }
        // exact number of transitions of this run (ties C04 to the run protocol)
        let want_t = (ro.n_collect + ro.n_discard).saturating_sub(1);
        if ro.trans.len() != want_t {
            ctx.violation(mk("C04:counter", format!("run({}, {}) performed {} transitions, expected {want_t}", ro.n_collect, ro.n_discard, ro.trans.len())));
            return;
        }
        eps_prev = eps_cur;
    }
}

fn histories<T, B>(ctx: &Ctx, name: &str, f32s: bool, worst: &std::sync::Mutex<Worst>)
where
    T: Float + burn::tensor::ElementConversion + burn::tensor::Element + rand_distr::uniform::SampleUniform + num_traits::FromPrimitive + std::fmt::Debug + num_traits::FloatConst + Send + Sync,
    B: AutodiffBackend,
    rand_distr::StandardNormal: rand::distr::Distribution<T>,
    rand_distr::StandardUniform: rand_distr::Distribution<T>,
    rand_distr::Exp1: rand_distr::Distribution<T>,
{
    let tg = targets::<T>();
    let alphabet: Vec<(usize, usize)> = vec![(1, 0), (2, 1), (3, 2), (2, 5), (1, 12)];
    let depth = ctx.tier.pick(2usize, 3);
    let mut hists: Vec<Vec<(usize, usize)>> = vec![];
    for l in 1..=depth {
        for idx in 0..alphabet.len().pow(l as u32) {
            let mut i = idx;
            hists.push((0..l).map(|_| { let x = alphabet[i % alphabet.len()]; i /= alphabet.len(); x }).collect());
        }
    }
    // long single runs
    for w in if ctx.tier.thorough() { vec![0usize, 1, 2, 10, 50, 200, 600, 2000] } else { vec![0, 1, 10, 100, 600] } {
        hists.push(vec![(20, w)]);
        hists.push(vec![(5, w), (5, w / 2), (3, w + 30)]);
    }
    // requested acceptance statistics over the whole stated range (0.5, 0.99), not only the customary 0.6..0.95
    let deltas: Vec<f64> = if ctx.tier.thorough() { vec![0.6, 0.8, 0.95, 0.51, 0.985] } else { vec![0.6, 0.9, 0.55, 0.985] };
    let seeds: Vec<u64> = if ctx.tier.thorough() { vec![1, 2] } else { vec![1] };
    let mut cfgs = vec![];
    for ti in 0..tg.len() {
        if f32s && !(ti == 0 || ti == 3 || ti == 5) {
            continue; // f32 scalars on three targets only
        }
        for &delta in &deltas {
            for &seed in &seeds {
                for h in hists.iter() {
                    // NaN-region targets: single runs and the long warm-ups only in the quick tier
                    if ti >= 3 && !ctx.tier.thorough() && h.len() == 2 {
                        continue;
                    }
                    // thorough tier: three-call histories on the regular targets with f64 scalars only; the longest warm-ups for one seed
                    if ctx.tier.thorough() && ((h.len() == 3 && h.iter().all(|r| r.1 < 50) && (ti >= 3 || f32s)) || (h.iter().any(|r| r.1 >= 2000) && seed != 1)) {
                        continue;
                    }
                    // quick tier: the 600-transition warm-ups only where an adaptation runaway would show (NaN-region targets)
                    if !ctx.tier.thorough() && h.iter().any(|r| r.1 >= 600) && !(ti == 5 && f32s && delta < 0.7 && h.len() == 1) {
                        continue;
                    }
                    // quick tier: the out-of-the-customary-range requests (0.55, 0.985) on the first target, short histories
                    if !ctx.tier.thorough() && (delta < 0.6 || delta > 0.95) && !(ti == 0 && !f32s && h.iter().map(|r| r.0 + r.1).sum::<usize>() <= 40) {
                        continue;
                    }
                    // thorough tier: the out-of-the-customary-range requests on the regular targets, histories of <= 250 transitions, one seed
                    if ctx.tier.thorough() && (delta < 0.6 || delta > 0.95) && !(ti < 3 && seed == 1 && h.iter().map(|r| r.0 + r.1).sum::<usize>() <= 250) {
                        continue;
                    }
                    cfgs.push(Cfg { target: ti, delta, seed, runs: h.clone() });
                }
            }
        }
    }
    cfgs.par_iter().for_each(|c| {
        let (target, start, tname) = (&tg[c.target].0, &tg[c.target].1, tg[c.target].2);
        let rt = gt_ref(target);
        let case = json!({"backend": name, "target": tname, "delta": c.delta, "seed": c.seed, "runs": c.runs});
        ctx.evals(1);
        ctx.state(hash_str(&case.to_string()));
        match observe::<T, B>(target.clone(), start, c.delta, c.seed, &c.runs, f32s, Some(&rt), ctx.tier.pick(1 << 11, 1 << 13), None) {
            Err(m) if m.contains("runaway tree") => {
                ctx.outcome("histories cut off (a transition needed more leapfrog steps than the harness allows: 2^11 quick / 2^13 thorough)", 1);
                ctx.cap(&format!("history {:?} on {tname} (delta {}, seed {}): {m}", c.runs, c.delta, c.seed));
            }
            Err(m) if m.starts_with("ALG6 ") => ctx.violation(Violation::new("C04:acceptance-statistic-inputs", format!("a transition of history {:?} is not the Algorithm-6 transition its acceptance statistic is supposed to summarise: {}", c.runs, &m[5..]), case)),
            Err(m) => ctx.violation(Violation::new("C04:panic", format!("NUTSChain::run panicked in history {:?}: {m}", c.runs), case)),
            Ok(obs) => {
                check_history(ctx, &rt, &obs, c.delta, f32s, &case, tname, worst);
                if c.runs.len() >= 2 {
                    ctx.sample_tagged("run history", || json!({"input": case.clone(), "per_run": obs.iter().map(|o| json!({"eps_at_start": o.init[0], "mu": o.init[1], "m_at_start": o.init[2], "adapt_state_after_each_transition(m,eps,eps_bar,h_bar)": o.trans.iter().take(4).map(|t| jfs(&t.3[..4])).collect::<Vec<_>>()})).collect::<Vec<_>>()}));
                }
                ctx.traces(1);
                ctx.distinct(hash_str(&case.to_string()));
            }
        }
    });
}

/// eps0 when the unit trial step of the heuristic leaves the target's domain (the back-off path of the heuristic):
/// starts near the boundary x forced initial momenta; eps0 must equal one of the reference variants.
fn eps0_backoff_cases(ctx: &Ctx) {
    let cases: Vec<(AnyGT<f64>, Vec<f64>, &str)> = vec![
        (AnyGT::Box1, vec![0.0, 0.5], "Box1"),
        (AnyGT::Box1, vec![0.9, -0.9], "Box1"),
        (AnyGT::SqrtDom, vec![0.3], "SqrtDom(1)"),
        (AnyGT::LogX, vec![0.4, 0.6], "Gamma(2,1)^2"),
        (AnyGT::NanPocket, vec![0.9], "NanPocket(1)"),
        // extreme scales: the search needs ~17 halvings (sd 1e-5) / ~14-17 doublings (sd 1e4, 1e5) from the unit step
        (AnyGT::Gauss2D(DiffableGaussian2D::new([0.0, 0.0], [[1e-10, 0.0], [0.0, 1e-10]])), vec![0.0, 0.0], "Gaussian sd 1e-5 (start at the mode)"),
        (AnyGT::Gauss2D(DiffableGaussian2D::new([0.0, 0.0], [[1e-10, 0.0], [0.0, 4e-10]])), vec![1e-5, -2e-5], "Gaussian sd 1e-5/2e-5"),
        (AnyGT::Gauss2D(DiffableGaussian2D::new([0.0, 0.0], [[1e8, 0.0], [0.0, 1e8]])), vec![1.0, 1.0], "Gaussian sd 1e4"),
        (AnyGT::Gauss2D(DiffableGaussian2D::new([0.0, 0.0], [[1e10, 0.0], [0.0, 1e10]])), vec![3e4, -1e5], "Gaussian sd 1e5"),
    ];
    let moms: Vec<f64> = vec![-3.0, -1.5, -0.6, 0.6, 1.5, 3.0];
    for (target, start, tname) in cases {
        let rt = gt_ref(&target);
        let d = start.len();
        for i in 0..moms.len().pow(d as u32) {
            let mut k = i;
            let m: Vec<f64> = (0..d).map(|_| { let v = moms[k % moms.len()]; k /= moms.len(); v }).collect();
            let case = json!({"part": "eps0-backoff", "target": tname, "start": start, "init_momentum": m});
            ctx.evals(1);
            ctx.transitions(1);
            match super::nutsref::with_eval_budget(1 << 14, || observe::<f64, BF64>(target.clone(), &start, 0.8, 1, &[(1, 0)], false, None, 1 << 11, Some(m.clone()))) {
                Err(e) if e.contains("runaway evaluations") => ctx.violation(Violation::new("C04:eps0-search-does-not-terminate", format!("the initial step-size search does not terminate within 2^14 target evaluations ({tname}, start {start:?}, momentum {m:?})"), case)),
                Err(e) => ctx.violation(Violation::new("C04:panic", format!("NUTSChain::run(1,0) panicked during the step-size search ({tname}, start {start:?}, momentum {m:?}): {e}"), case)),
                Ok(obs) => {
                    let eps0 = obs[0].init[0];
                    let (cands, margin) = eps0_candidates(&rt, &start, &m);
                    let unit_step_bad = { let (x1, _, lp1, _) = leap(&rt, &start, &m, 1.0); !lp1.is_finite() || (rt.g)(&x1).iter().any(|v| !v.is_finite()) };
                    if unit_step_bad {
                        ctx.outcome("eps0 cases where the unit trial step leaves the domain", 1);
                    }
                    if !(eps0 > 0.0 && eps0.is_finite()) {
                        ctx.violation(Violation::new("C04:eps-range", format!("initial step size {eps0} ({tname}, start {start:?}, momentum {m:?})"), case));
                    } else if margin.is_finite() && margin >= 1e-7 && !cands.iter().any(|c| (c - eps0).abs() <= 1e-12 * c) {
                        ctx.violation(Violation::new("C04:eps0-heuristic", format!("initial step size {eps0} is not what the doubling/halving heuristic gives ({cands:?}) for {tname}, start {start:?}, initial momentum {m:?} (unit trial step non-finite: {unit_step_bad})"), case));
                    } else {
                        ctx.outcome("eps0 back-off cases ok", 1);
                    }
                }
            }
        }
    }
}

/// "realised acceptance close to requested on well-conditioned targets": fixed enumerated grid, wide band (non-generalising).
fn acceptance_grid(ctx: &Ctx) {
    let dims: Vec<usize> = if ctx.tier.thorough() { vec![1, 2, 3, 4, 5] } else { vec![1, 2] };
    let deltas = [0.6, 0.8, 0.9];
    let seeds: Vec<u64> = if ctx.tier.thorough() { (0..8).collect() } else { vec![0] };
    let (warm, keep) = ctx.tier.pick((1000usize, 200usize), (1000, 500));
    let mut jobs = vec![];
    for &d in &dims {
        for &delta in &deltas {
            for &s in &seeds {
                jobs.push((d, delta, s));
            }
        }
    }
    jobs.par_iter().for_each(|&(d, delta, seed)| {
        let target = AnyGT::<f64>::GaussND(GaussND::new(d, 11));
        let start: Vec<f64> = (0..d).map(|k| 0.2 * (k as f64 + 1.0)).collect();
        let case = json!({"part": "acceptance-band", "d": d, "delta": delta, "seed": seed});
        ctx.evals(1);
        match observe::<f64, BF64>(target, &start, delta, seed, &[(keep, warm)], false, None, 1 << 13, None) {
            Err(m) => ctx.violation(Violation::new("C04:panic", m, case)),
            Ok(obs) => {
                let post: Vec<f64> = obs[0].trans.iter().filter(|t| t.3[0] > warm as f64).map(|t| t.0 / t.1).collect();
                let mean = post.iter().sum::<f64>() / post.len() as f64;
                ctx.transitions(obs[0].trans.len() as u64);
                ctx.outcome("acceptance-band members", 1);
                if std::env::var("MC_C04_DEBUG").is_ok() {
                    eprintln!("band d={d} delta={delta} seed={seed} mean={mean:.3} eps={:.4}", obs[0].trans.last().map(|t| t.3[1]).unwrap_or(0.0));
                }
                if !((mean - delta).abs() <= 0.15) {
                    ctx.violation(Violation::new("C04:acceptance-band", format!("Gaussian D={d}, requested acceptance {delta}, seed {seed}: realised mean acceptance statistic after {warm} warm-up transitions is {mean:.3} (band +-0.15)"), case));
                }
            }
        }
    });
}

pub fn run(ctx: &Ctx) {
    if std::env::var("MC_C04_DEBUG").is_ok() {
        acceptance_grid(ctx);
        return;
    }
    ctx.rule("E3: all histories of <= 2 (quick) / 3 (thorough) run(n_collect,n_discard) calls over {(1,0),(2,1),(3,2),(2,5),(1,12)} plus long warm-ups {0,1,2,10,50,200,2000}, on one chain, for 3 targets x requested acceptance {0.6,0.8,0.95} everywhere and {0.51,0.985} on histories of <= 250 transitions of the regular targets (quick: 0.6, 0.9 everywhere, 0.55 and 0.985 on short histories of one target) x seeds; the adaptation state (m, eps, eps_bar, H-bar, mu) recorded after EVERY transition is compared with the dual-averaging recurrence evaluated on the previously observed state and the transition's own acceptance statistic; eps0 against both published variants of the doubling/halving heuristic. states = distinct (target, delta, seed, history) nodes; transitions = NUTS transitions checked");
    let worst = std::sync::Mutex::new(Worst(0.0));
    histories::<f64, BF64>(ctx, "f64 / NdArray<f64>", false, &worst);
    histories::<f32, BF32>(ctx, "f32 / NdArray<f32>", true, &worst);
    eps0_backoff_cases(ctx);
    acceptance_grid(ctx);
    ctx.extra("worst_error_over_tolerance", json!(worst.lock().unwrap().0));
    ctx.assume("the clause 'realised acceptance close to requested' is statistical: checked on a fixed, fully enumerated grid with a wide band only (not exhaustive, not generalising)");
    ctx.assume("the statement does not say what the shrinkage point is when a later run resumes adaptation: mu = ln(10 eps0) is demanded for the first run only, constancy of mu within every run");
    if ctx.outcome_count("warm-up transitions checked") == 0 || ctx.outcome_count("post-warm-up transitions checked") == 0 {
        ctx.machinery_error("vacuity guard: both warm-up and post-warm-up transitions must be observed");
    }
}

pub fn check_case(ctx: &Ctx, case: &Value) {
    if case["part"].as_str() == Some("eps0-backoff") {
        eps0_backoff_cases(ctx);
        return;
    }
    if case.get("part").is_some() {
        acceptance_grid(ctx);
        return;
    }
    let worst = std::sync::Mutex::new(Worst(0.0));
    let runs: Vec<(usize, usize)> = case["runs"].as_array().map(|a| a.iter().map(|p| (p[0].as_u64().unwrap_or(1) as usize, p[1].as_u64().unwrap_or(0) as usize)).collect()).unwrap_or_default();
    let delta = case["delta"].as_f64().unwrap_or(0.8);
    let seed = case["seed"].as_u64().unwrap_or(1);
    let tname = case["target"].as_str().unwrap_or("");
    let f32s = case["backend"].as_str().map(|s| s.starts_with("f32")).unwrap_or(false);
    macro_rules! go {
        ($T:ty, $B:ty) => {{
            let tg = targets::<$T>();
            if let Some((target, start, tn)) = tg.iter().find(|t| t.2 == tname) {
                let rt = gt_ref(target);
                match observe::<$T, $B>(target.clone(), start, delta, seed, &runs, f32s, Some(&rt), 1 << 13, None) {
                    Err(m) => ctx.violation(Violation::new("C04:panic", m, case.clone())),
                    Ok(obs) => check_history(ctx, &rt, &obs, delta, f32s, case, tn, &worst),
                }
            }
        }};
    }
    if f32s {
        go!(f32, BF32)
    } else {
        go!(f64, BF64)
    }
}
