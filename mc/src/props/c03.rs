//! C03 — every NUTS transition is Hoffman-Gelman Algorithm 6 for the draws it consumed.
use super::nutsref::*;
use crate::burnutil::*;
use crate::common::*;
use crate::e2::explore;
use crate::zoo::GaussND;
use burn::tensor::backend::AutodiffBackend;
use mini_mcmc::distributions::{DiffableGaussian2D, Rosenbrock2D};
use num_traits::Float;
use rayon::prelude::*;
use serde_json::{json, Value};
use std::collections::HashSet;
use std::sync::Mutex;

#[derive(Clone, Debug)]
struct Base {
    target: usize,
    start: Vec<f64>,
    eps: f64,
    bound: usize,
}

fn targets<T: Float + std::fmt::Debug + num_traits::FloatConst>(thorough: bool) -> Vec<(AnyGT<T>, usize, &'static str)> {
    let f = |x: f64| T::from(x).unwrap();
    let mut v = vec![
        (AnyGT::GaussND(GaussND::new(1, 0)), 1, "GaussND(1)"),
        (AnyGT::GaussND(GaussND::new(2, 1)), 2, "GaussND(2)"),
        (AnyGT::GaussND(GaussND::new(3, 2)), 3, "GaussND(3)"),
        (AnyGT::Gauss2D(DiffableGaussian2D::new([f(0.0), f(1.0)], [[f(4.0), f(2.0)], [f(2.0), f(3.0)]])), 2, "DiffableGaussian2D"),
        (AnyGT::Rosen2D(Rosenbrock2D { a: f(1.0), b: f(10.0) }), 2, "Rosenbrock2D"),
        (AnyGT::Funnel, 2, "Funnel"),
        (AnyGT::Quartic, 2, "Quartic"),
        // targets with NaN regions / bounded support (starts inside the support)
        (AnyGT::LogX, 2, "Gamma(2,1)^2"),
        (AnyGT::NanPocket, 2, "NanPocket(2)"),
        (AnyGT::SqrtDom, 1, "SqrtDom(1)"),
    ];
    if thorough {
        v.push((AnyGT::GaussND(GaussND::new(5, 3)), 5, "GaussND(5)"));
        v.push((AnyGT::GaussND(GaussND::new(8, 4)), 8, "GaussND(8)"));
    }
    v
}

fn starts(d: usize, thorough: bool) -> Vec<Vec<f64>> {
    let mut v = vec![(0..d).map(|k| 0.4 - 0.3 * k as f64).collect::<Vec<f64>>(), (0..d).map(|k| if k % 2 == 0 { -1.2 } else { 0.9 }).collect()];
    if thorough {
        v.push((0..d).map(|k| 2.5 - 0.1 * k as f64).collect());
    }
    v
}

fn momenta(d: usize) -> Vec<Vec<f64>> {
    let alpha = [0.3, -1.5, -0.3, 1.5];
    let mut out = vec![];
    if d <= 2 {
        for idx in 0..4usize.pow(d as u32) {
            let mut i = idx;
            out.push((0..d).map(|_| { let v = alpha[i % 4]; i /= 4; v }).collect());
        }
    } else {
        out.push(vec![0.3; d]);
        for a in 0..d {
            for va in 1..4 {
                let mut v = vec![0.3; d];
                v[a] = alpha[va];
                out.push(v);
            }
        }
    }
    out
}

#[derive(Default)]
struct Agg {
    max_depth: usize,
    divergent: u64,
    early: u64,
    moved: u64,
    stayed: u64,
    ambiguous: u64,
    total: u64,
    nan: u64,
}

fn run_backend<T, B>(ctx: &Ctx, name: &str, f32b: bool, agg: &Mutex<Agg>)
where
    T: Float + burn::tensor::ElementConversion + burn::tensor::Element + rand_distr::uniform::SampleUniform + num_traits::FromPrimitive + std::fmt::Debug + num_traits::FloatConst + Send + Sync,
    B: AutodiffBackend,
    rand_distr::StandardNormal: rand::distr::Distribution<T>,
    rand_distr::StandardUniform: rand_distr::Distribution<T>,
    rand_distr::Exp1: rand_distr::Distribution<T>,
{
    run_backend_l::<T, B>(ctx, name, f32b, agg, false)
}

/// `limited`: two targets, step sizes 1.5 and 0.5, deviation bound <= 1 (used for the mixed-precision combination)
fn run_backend_l<T, B>(ctx: &Ctx, name: &str, f32b: bool, agg: &Mutex<Agg>, limited: bool)
where
    T: Float + burn::tensor::ElementConversion + burn::tensor::Element + rand_distr::uniform::SampleUniform + num_traits::FromPrimitive + std::fmt::Debug + num_traits::FloatConst + Send + Sync,
    B: AutodiffBackend,
    rand_distr::StandardNormal: rand::distr::Distribution<T>,
    rand_distr::StandardUniform: rand_distr::Distribution<T>,
    rand_distr::Exp1: rand_distr::Distribution<T>,
{
    let thorough = ctx.tier.thorough();
    let tg = targets::<T>(thorough);
    let mut bases = vec![];
    for (ti, (_, d, tn)) in tg.iter().enumerate() {
        if limited && ti >= 2 {
            continue;
        }
        let sts: Vec<Vec<f64>> = if tn.starts_with("Gamma") || tn.starts_with("SqrtDom") {
            vec![(0..*d).map(|k| 0.6 + 0.5 * k as f64).collect(), (0..*d).map(|k| 0.05 + 0.02 * k as f64).collect()]
        } else if tn.starts_with("NanPocket") {
            vec![(0..*d).map(|k| 1.0 - 1.4 * k as f64).collect(), (0..*d).map(|k| 1.6 + 0.1 * k as f64).collect()]
        } else {
            starts(*d, thorough)
        };
        for st in sts {
            // (step size, deviation bound): shallow trees fully, deep trees with fewer deviations
            let plan: Vec<(f64, usize)> = if thorough { vec![(1.5, 3), (0.5, 3), (0.1, 2), (0.03, 1), (0.01, 0), (10.0, 2), (3.0, 2)] } else { vec![(1.5, 2), (0.5, 2), (0.1, 1), (0.02, 0), (10.0, 1), (3.0, 1)] };
            for (eps, bound) in plan {
                if limited && !(eps == 1.5 || eps == 0.5) {
                    continue;
                }
                let bound = if limited { bound.min(1) } else { bound };
                if f32b && eps < 0.05 {
                    continue; // deep trees on the f64 backend only
                }
                bases.push(Base { target: ti, start: st.clone(), eps, bound });
            }
        }
    }
    // very deep trees (depth 11-13: the trajectory needs thousands of leapfrog steps before it U-turns): default draws
    // and single deviations of the direction pattern only; f64 backend
    if !f32b && !limited {
        for ti in 0..2 {
            for st in starts(tg[ti].1, false) {
                bases.push(Base { target: ti, start: st.clone(), eps: 0.0012, bound: 0 });
                if thorough {
                    bases.push(Base { target: ti, start: st, eps: 0.0005, bound: 0 });
                }
            }
        }
    }
    bases.par_iter().for_each(|b| {
        let (target, d, tname) = (&tg[b.target].0, tg[b.target].1, tg[b.target].2);
        let rt = gt_ref(target);
        let moms = momenta(d);
        let mut states = HashSet::new();
        let mut local = Agg::default();
        // adaptive bound: the default execution tells how many choice points the tree has; take the largest
        // deviation bound <= the planned one whose full enumeration fits the execution budget (so that no cap is hit)
        let budget: f64 = ctx.tier.pick(700.0, 6000.0);
        let n_points = {
            let mut chain = chain_with_eps::<T, B>(target.clone(), &b.start, b.eps);
            let (_, rec) = record_with(Script { prefix: vec![], momenta: moms.clone(), f32_scalar: f32b, inject: true, keep: None, max_leaves: 1 << 14, init_momentum: None }, || chain.step());
            rec.decisions.iter().map(|d| (d.n - 1) as f64).sum::<f64>()
        };
        let mut bound = b.bound;
        while bound > 0 {
            let est = match bound {
                1 => 1.0 + n_points,
                2 => 1.0 + n_points + n_points * n_points / 2.0,
                _ => 1.0 + n_points + n_points * n_points / 2.0 + n_points.powi(3) / 6.0,
            };
            if est * 1.5 <= budget {
                break;
            }
            bound -= 1;
        }
        let res = explore(bound, ctx.tier.pick(4000, 30000), |prefix| {
            let mut chain = chain_with_eps::<T, B>(target.clone(), &b.start, b.eps);
            let (r, rec) = record_with(Script { prefix: prefix.to_vec(), momenta: moms.clone(), f32_scalar: f32b, inject: true, keep: None, max_leaves: 1 << 14, init_momentum: None }, || chain.step());
            let case = json!({"backend": name, "target": tname, "start": b.start, "eps": b.eps, "script": prefix});
            ctx.transitions(1);
            if let Err(m) = r {
                ctx.violation(Violation::new("C03:panic", format!("NUTSChain::step panicked: {m}"), case));
                return Ok(rec.decisions);
            }
            // history: relocate the chain through its public `position` field, then one more transition
            // (default draws) from there — it must be Algorithm 6 on the trajectory through the NEW point
            if prefix.len() <= 1 {
                let newpos: Vec<f64> = b.start.iter().enumerate().map(|(k, x)| if tname.starts_with("Gamma") || tname.starts_with("SqrtDom") { x * 1.7 + 0.3 } else { -0.8 * x + 0.35 + 0.1 * k as f64 }).collect();
                chain.position = t1::<B>(&newpos);
                chain.verif_set_adapt_state(Some(0), Some(T::from(b.eps).unwrap()), Some(T::from(b.eps).unwrap()), Some(T::from(0.0).unwrap()), None, Some(0));
                let (r2, rec2) = record_with(Script { prefix: vec![], momenta: moms.clone(), f32_scalar: f32b, inject: true, keep: None, max_leaves: 1 << 14, init_momentum: None }, || chain.step());
                ctx.transitions(1);
                let case2 = json!({"backend": name, "target": tname, "start": b.start, "eps": b.eps, "script": prefix, "then_relocated_to": newpos});
                match r2 {
                    Err(m) => ctx.violation(Violation::new("C03:panic", format!("NUTSChain::step panicked after relocating the chain: {m}"), case2)),
                    Ok(()) => {
                        let mut ver2 = Verifier::new(&rt, f32b, f32b, &rec2.events, 0);
                        match ver2.transition() {
                            Err(f) => ctx.violation(Violation::new("C03:after-relocation", format!("{} ({}) [{} eps={} after assigning position = {:?}]", f.what, f.key, tname, b.eps, newpos), case2)),
                            Ok(info2) => {
                                let sb: Vec<u64> = v(&t1::<B>(&newpos)).iter().map(|x| x.to_bits()).collect();
                                if info2.start.iter().map(|x| x.to_bits()).ne(sb.iter().cloned()) {
                                    ctx.violation(Violation::new("C03:after-relocation", format!("the transition after relocating the chain starts from {:?}, not from the assigned position {:?}", info2.start, newpos), case2));
                                } else {
                                    ctx.outcome("relocate-then-step histories", 1);
                                }
                            }
                        }
                    }
                }
            }
            let mut ver = Verifier::new(&rt, f32b, f32b, &rec.events, 0);
            match ver.transition() {
                Err(f) => ctx.violation(Violation::new(f.key, format!("{} [{} eps={} start={:?} script={:?}]", f.what, tname, b.eps, b.start, prefix), case)),
                Ok(info) => {
                    if info.depth >= 2 && !prefix.is_empty() {
                        ctx.sample_tagged("one NUTS transition", || json!({"input": case.clone(), "choices": rec.decisions.iter().map(|d| format!("{}:{}/{}", d.kind, d.chosen, d.n)).collect::<Vec<_>>(), "depth": info.depth, "leaves": info.n_leaves, "moved": info.moved, "divergent": info.divergent, "start": info.start, "end": info.end}));
                    }
                    local.total += 1;
                    local.max_depth = local.max_depth.max(info.depth);
                    if info.ambiguous {
                        local.ambiguous += 1;
                    }
                    if info.divergent {
                        local.divergent += 1;
                    }
                    if info.early_stop_subtree {
                        local.early += 1;
                    }
                    if info.nan_joint {
                        local.nan += 1;
                    }
                    if info.moved {
                        local.moved += 1;
                    } else {
                        local.stayed += 1;
                    }
                    // invariant of the statement, independent of the reference walk: next state = previous state or a
                    // slice-admissible trajectory point
                    let d0 = info.start.len();
                    let end_bits: Vec<u64> = info.end.iter().map(|x| x.to_bits()).collect();
                    let mut admissible = info.start.iter().map(|x| x.to_bits()).eq(end_bits.iter().cloned());
                    if !admissible {
                        for (l, e) in rec.events.iter() {
                            if l == "nuts.leaf" && e[3] != 0.0 && e[6..6 + d0].iter().map(|x| x.to_bits()).eq(end_bits.iter().cloned()) {
                                admissible = true;
                                break;
                            }
                        }
                    }
                    if !admissible && !info.ambiguous {
                        ctx.violation(Violation::new("C03:next-state-not-admissible", format!("next state {:?} is neither the previous state nor a slice-admissible point of the trajectory [{} eps={}]", info.end, tname, b.eps), case));
                    }
                    states.insert(hash_of(&(info.depth, info.n_leaves, info.moved, info.divergent, info.early_stop_subtree, b.target, (b.eps * 1000.0) as i64)));
                }
            }
            Ok(rec.decisions)
        });
        match res {
            Err(e) => ctx.machinery_error(format!("E1 exploration failed: {e}")),
            Ok(st) => {
                ctx.evals(st.executions);
                ctx.traces(st.executions);
                ctx.states_bulk(states.iter().cloned());
                ctx.distinct_bulk(states.iter().cloned());
                if st.capped {
                    ctx.cap(&format!("NUTS exploration {tname} eps={} start={:?}: execution cap reached at deviation bound {}", b.eps, b.start, bound));
                }
            }
        }
        ctx.outcome(&format!("base configurations explored with deviation bound {bound}"), 1);
        let mut g = agg.lock().unwrap();
        g.max_depth = g.max_depth.max(local.max_depth);
        g.divergent += local.divergent;
        g.early += local.early;
        g.moved += local.moved;
        g.stayed += local.stayed;
        g.ambiguous += local.ambiguous;
        g.total += local.total;
        g.nan += local.nan;
    });
}

pub fn run(ctx: &Ctx) {
    ctx.rule("E1: every draw of a real NUTSChain::step is a choice injected through taps (momentum: full product over {-1.5,-0.3,0.3,1.5} for D<=2 else <=1 deviating coordinate; slice variate {1e-12,0.1,1,5,50,3e3,1e6} (the large ones make leaves with an energy error between 1000 and 1000+e non-divergent); direction uniform {1/4,3/4}; every merge uniform {0, just below / exactly n''/(n'+n''), 1/2, 1-2^-53}; every top-level accept uniform {0, just below / exactly min(1,n'/n), 1/2, 1-ulp}); all choice vectors with <= the stated number of deviations from the defaults per base configuration (targets: matmul Gaussians D=1,2,3(,5,8), DiffableGaussian2D, Rosenbrock2D, funnel, quartic; 2-3 starts; step sizes 10 / 3 / 1.5 / 0.5 / 0.1 / 0.02-0.01 giving depths 0..10). Oracle: the recorded trajectory (every leaf, merge, doubling) is replayed by an iterative Algorithm 6 on the implementation's own recorded operands (exact decisions), every leaf is checked against an f64 leapfrog step. states = distinct (target, step size, depth, #leaves, moved, divergent, early-stop) classes; transitions = real step() calls");
    let agg = Mutex::new(Agg::default());
    run_backend::<f64, BF64>(ctx, "f64 / NdArray<f64>", false, &agg);
    run_backend::<f32, BF32>(ctx, "f32 / NdArray<f32>", true, &agg);
    // scalar type narrower than the backend float: the state must stay the backend's (f64) trajectory point, bit for bit
    run_backend_l::<f32, BF64>(ctx, "f32 / NdArray<f64>", true, &agg, true);
    let g = agg.lock().unwrap();
    ctx.extra("tree_statistics", json!({"transitions": g.total, "max_depth": g.max_depth, "with_divergent_leaf": g.divergent, "with_early_stopped_subtree": g.early, "moved": g.moved, "stayed": g.stayed, "with_nan_joint": g.nan, "ambiguous_skipped(U-turn product inside rounding margin)": g.ambiguous}));
    ctx.outcome("moved", g.moved);
    ctx.outcome("stayed", g.stayed);
    ctx.outcome("divergent", g.divergent);
    ctx.outcome("early-stopped-subtree", g.early);
    ctx.outcome("ambiguous-skipped", g.ambiguous);
    if g.max_depth < 6 || g.divergent == 0 || g.early == 0 || g.moved == 0 || g.stayed == 0 {
        ctx.machinery_error(format!("vacuity guard: need depth >= 6 (got {}), a divergent leaf ({}), an early-stopped subtree ({}), moves and stays", g.max_depth, g.divergent, g.early));
    }
    if g.ambiguous * 50 > g.total {
        ctx.machinery_error("more than 2 % of the transitions had a decision inside the rounding margin");
    }
    ctx.assume("conventions Algorithm 6 does not fix are not pinned: which half of [0,1) maps to direction +1, whether the top-level uniform is drawn when s'=0, the parametrisation of the slice variate (only slice level = joint - e, e >= 0 is required)");
    ctx.assume("U-turn products within 1e-11 (f64) / 2e-5 (f32) relative of zero make a transition 'ambiguous': it is followed, not judged, and counted (guard: <= 2 %)");
}

pub fn check_case(ctx: &Ctx, case: &Value) {
    let prefix: Vec<u32> = case["script"].as_array().map(|a| a.iter().map(|x| x.as_u64().unwrap_or(0) as u32).collect()).unwrap_or_default();
    let tname = case["target"].as_str().unwrap_or("");
    let start = pfs(&case["start"]);
    let eps = case["eps"].as_f64().unwrap_or(0.5);
    let f32b = case["backend"].as_str().map(|s| s.starts_with("f32")).unwrap_or(false);
    macro_rules! go {
        ($T:ty, $B:ty) => {{
            let tg = targets::<$T>(true);
            if let Some((target, d, _)) = tg.iter().find(|t| t.2 == tname) {
                let rt = gt_ref(target);
                let mut chain = chain_with_eps::<$T, $B>(target.clone(), &start, eps);
                let (r, rec) = record_with(Script { prefix: prefix.clone(), momenta: momenta(*d), f32_scalar: f32b, inject: true, keep: None, max_leaves: 1 << 14, init_momentum: None }, || chain.step());
                if let Err(m) = r {
                    ctx.violation(Violation::new("C03:panic", m, case.clone()));
                } else {
                    let mut ver = Verifier::new(&rt, f32b, f32b, &rec.events, 0);
                    if let Err(f) = ver.transition() {
                        ctx.violation(Violation::new(f.key, f.what, case.clone()));
                    }
                }
            }
        }};
    }
    if f32b {
        go!(f32, BF32)
    } else {
        go!(f64, BF64)
    }
}
