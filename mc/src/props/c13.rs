//! C13 — streaming trackers (ChainTracker / collect_rhat / MultiChainTracker) vs batch statistics.
use crate::common::*;
use crate::refs::Lcg;
use mini_mcmc::stats::{collect_rhat, ChainStats, ChainTracker, MultiChainTracker};
use rayon::prelude::*;
use serde_json::{json, Value};
use std::sync::Mutex;

const EPS32: f64 = 1.1920929e-7;

/// Reference per-chain batch statistics of the fed states.
#[derive(Clone)]
struct Batch {
    /// fed states, [t][param]
    xs: Vec<Vec<f64>>,
}
impl Batch {
    fn n(&self) -> usize {
        self.xs.len()
    }
    fn mean(&self, k: usize) -> f64 {
        self.xs.iter().map(|r| r[k]).sum::<f64>() / self.n() as f64
    }
    fn var1(&self, k: usize) -> f64 {
        let m = self.mean(k);
        self.xs.iter().map(|r| (r[k] - m) * (r[k] - m)).sum::<f64>() / (self.n() as f64 - 1.0)
    }
    fn maxabs(&self, k: usize) -> f64 {
        self.xs.iter().map(|r| r[k].abs()).fold(0.0, f64::max)
    }
}

/// classical R-hat of parameter k from per-chain (n, mean, unbiased variance)
fn classical(ns: &[f64], means: &[f64], vars: &[f64]) -> f64 {
    let m = ns.len() as f64;
    let n = ns.iter().sum::<f64>() / m;
    let w = vars.iter().sum::<f64>() / m;
    let gm = means.iter().sum::<f64>() / m;
    let b_over_n = means.iter().map(|x| (x - gm) * (x - gm)).sum::<f64>() / (m - 1.0);
    (((n - 1.0) / n * w + b_over_n) / w).sqrt()
}

struct Worst {
    mean: f64,
    var: f64,
    rhat_own: f64,
    rhat_multi: f64,
}

/// The state of one explored history: real trackers + reference batches.
#[derive(Clone)]
struct Node {
    trackers: Vec<ChainTracker>,
    multi: MultiChainTracker,
    batches: Vec<Batch>,
    last: Vec<Vec<f64>>, // last state per chain (incl. the initial state for ChainTracker)
    p_chain: Vec<f64>,   // last reported p_accept per chain tracker
    p_multi: f64,
    multi_last: Vec<Vec<f64>>, // what the multi tracker compares with (zeros before the first update)
    hist: Vec<Vec<Vec<f64>>>,  // [t][chain][param] for the replay file
    init: Vec<f64>,
    case_override: Option<Value>,
}

fn new_node(n_chains: usize, n_params: usize, init: &[f64]) -> Node {
    new_node_ty(n_chains, n_params, init, "f32")
}
/// `ty == "f64"`: the trackers are constructed from the f64 initial state itself (not from an f32 copy)
fn new_node_ty(n_chains: usize, n_params: usize, init: &[f64], ty: &str) -> Node {
    let init32: Vec<f32> = init.iter().map(|x| *x as f32).collect();
    Node {
        trackers: (0..n_chains).map(|_| if ty == "f64" { ChainTracker::new(n_params, init) } else { ChainTracker::new(n_params, &init32) }).collect(),
        multi: MultiChainTracker::new(n_chains, n_params),
        batches: vec![Batch { xs: vec![] }; n_chains],
        last: vec![init.to_vec(); n_chains],
        p_chain: vec![f64::NAN; n_chains],
        p_multi: 0.0,
        multi_last: vec![vec![0.0; n_params]; n_chains],
        hist: vec![],
        init: init.to_vec(),
        case_override: None,
    }
}

fn case_of(node: &Node, ty: &str) -> Value {
    if let Some(c) = &node.case_override {
        return c.clone();
    }
    json!({"history": {"ty": ty, "init": jfs(&node.init), "updates": node.hist.iter().map(|t| t.iter().map(|c| jfs(c)).collect::<Vec<_>>()).collect::<Vec<_>>()}})
}

/// Feed one update (one new state per chain) to the real trackers, then check every oracle.
/// `feed` abstracts over the element type.
fn apply_and_check<T: Copy>(
    ctx: &Ctx,
    worst: &Mutex<Worst>,
    node: &mut Node,
    upd: &[Vec<f64>],
    ty: &str,
    conv: impl Fn(f64) -> T,
    step_chain: impl Fn(&mut ChainTracker, &[T]) -> Result<(), String>,
    step_multi: impl Fn(&mut MultiChainTracker, &[T]) -> Result<(), String>,
) -> bool {
    let n_chains = node.trackers.len();
    let n_params = upd[0].len();
    node.hist.push(upd.to_vec());
    ctx.evals(1);
    ctx.transitions(1);
    let mk = |node: &Node, key: &str, what: String| Violation::new(key, what, case_of(node, ty));
    // --- real code
    for c in 0..n_chains {
        let x: Vec<T> = upd[c].iter().map(|v| conv(*v)).collect();
        if let Err(m) = step_chain(&mut node.trackers[c], &x) {
            ctx.violation(mk(node, "C13:panic", format!("ChainTracker::step failed: {m}")));
            return false;
        }
    }
    let flat: Vec<T> = upd.iter().flat_map(|r| r.iter().map(|v| conv(*v))).collect();
    if let Err(m) = step_multi(&mut node.multi, &flat) {
        ctx.violation(mk(node, "C13:panic", format!("MultiChainTracker::step failed: {m}")));
        return false;
    }
    // --- reference
    for c in 0..n_chains {
        node.batches[c].xs.push(upd[c].clone());
    }
    let n = node.batches[0].n();
    let stats: Vec<ChainStats> = node.trackers.iter().map(|t| t.stats()).collect();
    // (iii) acceptance EMA, per-chain tracker
    for c in 0..n_chains {
        let moved = if upd[c] != node.last[c] { 1.0 } else { 0.0 };
        let p = stats[c].p_accept as f64;
        if !(0.0..=1.0).contains(&p) {
            ctx.violation(mk(node, "C13:p-range", format!("chain {c}: p_accept {p} outside [0,1] after {n} updates")));
        }
        if n >= 2 {
            let want = 0.99 * node.p_chain[c] + 0.01 * moved;
            if (p - want).abs() > 2e-6 {
                ctx.violation(mk(node, "C13:p-ema", format!("chain {c}: p_accept {p} after update {n}, EMA(0.01) of the previous value {} and indicator {moved} is {want}", node.p_chain[c])));
            }
        } else if p < 0.01 * moved - 1e-7 || p > 0.99 + 0.01 * moved + 1e-7 {
            ctx.violation(mk(node, "C13:p-first", format!("chain {c}: first p_accept {p} is not a convex combination consistent with indicator {moved}")));
        }
        node.p_chain[c] = p;
        node.last[c] = upd[c].clone();
    }
    // multi-chain tracker acceptance: range + monotonicity in the unanimous cases
    {
        let p = node.multi.p_accept as f64;
        let moved: Vec<bool> = (0..n_chains).map(|c| upd[c] != node.multi_last[c]).collect();
        if !(0.0..=1.0).contains(&p) {
            ctx.violation(mk(node, "C13:p-range", format!("multi-chain p_accept {p} outside [0,1]")));
        }
        if moved.iter().all(|m| !*m) && p > node.p_multi + 1e-7 {
            ctx.violation(mk(node, "C13:p-multi", format!("multi-chain p_accept rose from {} to {p} although no chain moved", node.p_multi)));
        }
        if moved.iter().all(|m| *m) && p < node.p_multi - 1e-7 {
            ctx.violation(mk(node, "C13:p-multi", format!("multi-chain p_accept fell from {} to {p} although every chain moved", node.p_multi)));
        }
        node.p_multi = p;
        node.multi_last = upd.to_vec();
    }
    // (i) count / mean / unbiased variance
    let ln = 1.0 + (n as f64).ln();
    for c in 0..n_chains {
        if stats[c].n != n as u64 {
            ctx.violation(mk(node, "C13:count", format!("chain {c}: tracker reports n={} after {n} updates", stats[c].n)));
        }
        for k in 0..n_params {
            let b = &node.batches[c];
            let mx = b.maxabs(k).max(1e-30);
            let tol_m = 8.0 * EPS32 * mx * ln;
            let em = (stats[c].mean[k] as f64 - b.mean(k)).abs();
            {
                let mut w = worst.lock().unwrap();
                w.mean = w.mean.max(em / tol_m);
            }
            if em > tol_m {
                ctx.violation(mk(node, "C13:mean", format!("chain {c} param {k}: tracker mean {} vs batch mean {} after {n} updates", stats[c].mean[k], b.mean(k))));
            }
            if n >= 2 {
                let tol_v = 24.0 * EPS32 * mx * mx * ln * (n as f64 / (n as f64 - 1.0));
                let ev = (stats[c].sm2[k] as f64 - b.var1(k)).abs();
                {
                    let mut w = worst.lock().unwrap();
                    w.var = w.var.max(ev / tol_v);
                }
                if !(ev <= tol_v) {
                    ctx.violation(mk(node, "C13:variance", format!("chain {c} param {k}: tracker variance {} vs unbiased batch variance {} after {n} updates", stats[c].sm2[k], b.var1(k))));
                }
            }
        }
    }
    // (ii) R-hat from several trackers
    if n >= 2 && n_chains >= 2 {
        let refs: Vec<&ChainStats> = stats.iter().collect();
        let got = match catch(|| collect_rhat(&refs)) {
            Ok(g) => g,
            Err(m) => {
                ctx.violation(mk(node, "C13:panic", format!("collect_rhat panicked: {m}")));
                return false;
            }
        };
        let multi = match catch(|| node.multi.rhat()) {
            Ok(Ok(g)) => g,
            Ok(Err(e)) => {
                ctx.violation(mk(node, "C13:panic", format!("MultiChainTracker::rhat failed: {e}")));
                return false;
            }
            Err(m) => {
                ctx.violation(mk(node, "C13:panic", format!("MultiChainTracker::rhat panicked: {m}")));
                return false;
            }
        };
        // the tracker's one-number summary (what the HMC progress bar prints): the largest per-parameter value
        if multi.iter().all(|x| !x.is_nan()) {
            match catch(|| node.multi.max_rhat().map_err(|e| e.to_string())) {
                Ok(Ok(m)) => {
                    let want = multi.iter().cloned().fold(f32::NEG_INFINITY, f32::max);
                    ctx.outcome("max_rhat-compared", 1);
                    if m.to_bits() != want.to_bits() {
                        ctx.violation(mk(node, "C13:max-rhat", format!("MultiChainTracker::max_rhat {m} is not the maximum {want} of MultiChainTracker::rhat {:?}", multi.to_vec())));
                    }
                }
                Ok(Err(e)) => ctx.violation(mk(node, "C13:max-rhat", format!("MultiChainTracker::max_rhat failed ({e}) although every per-parameter value is a number: {:?}", multi.to_vec()))),
                Err(m) => ctx.violation(mk(node, "C13:panic", format!("MultiChainTracker::max_rhat panicked: {m}"))),
            }
        } else {
            ctx.outcome("max_rhat-skipped(NaN entry: undefined)", 1);
        }
        for k in 0..n_params {
            let ns: Vec<f64> = stats.iter().map(|s| s.n as f64).collect();
            let ms: Vec<f64> = stats.iter().map(|s| s.mean[k] as f64).collect();
            let vs: Vec<f64> = stats.iter().map(|s| s.sm2[k] as f64).collect();
            let own = classical(&ns, &ms, &vs);
            let g = got[k] as f64;
            let w: f64 = vs.iter().sum::<f64>() / vs.len() as f64;
            if !(w > 0.0) || !own.is_finite() {
                ctx.outcome("rhat-degenerate(W<=0)", 1);
                continue;
            }
            // (a) formula on the trackers' OWN reported stats: tight
            let e_own = (g - own).abs() / own;
            {
                let mut wst = worst.lock().unwrap();
                wst.rhat_own = wst.rhat_own.max(e_own / 1e-5);
            }
            if !(e_own <= 1e-5) {
                ctx.violation(mk(node, if n_params > 1 { "C13:collect-rhat-formula(n_params>1)" } else { "C13:collect-rhat-formula" }, format!("param {k}: collect_rhat {g} vs classical sqrt(var+/W) of the trackers' own (n, mean, variance) = {own} ({n_chains} chains, {n_params} params, n={n})")));
            }
            // (b) batch truth and agreement with the multi-chain tracker: conditioning tolerance
            let bm: Vec<f64> = node.batches.iter().map(|b| b.mean(k)).collect();
            let bv: Vec<f64> = node.batches.iter().map(|b| b.var1(k)).collect();
            let truth = classical(&ns, &bm, &bv);
            let bw = bv.iter().sum::<f64>() / bv.len() as f64;
            if !(bw > 0.0) {
                continue;
            }
            let mx = node.batches.iter().map(|b| b.maxabs(k)).fold(0.0, f64::max);
            let cond = mx * mx / bw;
            let tol = 1e-4 + 60.0 * EPS32 * cond * ln;
            let mg = multi[k] as f64;
            let e_multi = (mg - truth).abs() / truth;
            {
                let mut wst = worst.lock().unwrap();
                wst.rhat_multi = wst.rhat_multi.max(e_multi / tol);
            }
            if !(e_multi <= tol) {
                ctx.violation(mk(node, "C13:multi-rhat", format!("param {k}: MultiChainTracker::rhat {mg} vs classical R-hat of the fed draws {truth}")));
            }
            if !((g - mg).abs() / truth <= 2.0 * tol) {
                ctx.violation(mk(node, if n_params > 1 { "C13:collect-vs-multi(n_params>1)" } else { "C13:collect-vs-multi" }, format!("param {k}: collect_rhat {g} differs from MultiChainTracker::rhat {mg} on the same data (classical value {truth}; {n_chains} chains, {n_params} params, n={n})")));
            }
            ctx.outcome("rhat-compared", 1);
        }
    }
    true
}

fn step_generic<T: num_traits::ToPrimitive + Clone>(t: &mut ChainTracker, x: &[T]) -> Result<(), String> {
    match catch(|| t.step(x).map_err(|e| e.to_string())) {
        Ok(r) => r,
        Err(m) => Err(format!("panic: {m}")),
    }
}
fn stepm_generic<T: num_traits::Num + num_traits::ToPrimitive + num_traits::FromPrimitive + Clone + PartialOrd>(t: &mut MultiChainTracker, x: &[T]) -> Result<(), String> {
    match catch(|| t.step(x).map_err(|e| e.to_string())) {
        Ok(r) => r,
        Err(m) => Err(format!("panic: {m}")),
    }
}

fn apply_ty(ctx: &Ctx, worst: &Mutex<Worst>, node: &mut Node, upd: &[Vec<f64>], ty: &str) -> bool {
    match ty {
        "f32" => apply_and_check(ctx, worst, node, upd, ty, |v| v as f32, step_generic::<f32>, stepm_generic::<f32>),
        "f64" => apply_and_check(ctx, worst, node, upd, ty, |v| v, step_generic::<f64>, stepm_generic::<f64>),
        "i32" => apply_and_check(ctx, worst, node, upd, ty, |v| v as i32, step_generic::<i32>, stepm_generic::<i32>),
        "u8" => apply_and_check(ctx, worst, node, upd, ty, |v| v as u8, step_generic::<u8>, stepm_generic::<u8>),
        _ => false,
    }
}

/// Exhaustive history DFS: every sequence of updates over the value alphabet up to `depth`.
fn dfs(ctx: &Ctx, worst: &Mutex<Worst>, node: &Node, alphabet: &[f64], depth: usize, n_chains: usize, n_params: usize, ty: &str, states: &mut Vec<u64>) {
    if depth == 0 {
        return;
    }
    let cells = n_chains * n_params;
    let total = (alphabet.len() as u64).pow(cells as u32);
    for idx in 0..total {
        let mut i = idx;
        let mut upd = vec![vec![0.0; n_params]; n_chains];
        for c in 0..n_chains {
            for k in 0..n_params {
                upd[c][k] = alphabet[(i % alphabet.len() as u64) as usize];
                i /= alphabet.len() as u64;
            }
        }
        let mut child = node.clone();
        if apply_ty(ctx, worst, &mut child, &upd, ty) {
            // canonical state of the reference model = the multiset-free full history (small alphabet) hashed
            let flat: Vec<f64> = child.hist.iter().flatten().flatten().cloned().collect();
            states.push(hash_f64s(ty, &flat) ^ hash_f64s("init", &child.init));
            dfs(ctx, worst, &child, alphabet, depth - 1, n_chains, n_params, ty, states);
        }
    }
}

fn family_history(seed: u64, len: usize, n_chains: usize, n_params: usize, kind: usize, ty: &str) -> (Vec<f64>, Vec<Vec<Vec<f64>>>) {
    let mut g = Lcg::new(seed);
    let integer = ty == "i32" || ty == "u8";
    let (loc, scale) = match kind % 4 {
        0 => (0.0, 1.0),
        1 => (10.0, 1.0),
        2 => (-5.0, 10.0),
        _ => (3.0, 0.1),
    };
    let q = |v: f64| -> f64 {
        if integer {
            let r = v.round();
            if ty == "u8" { r.clamp(0.0, 255.0) } else { r }
        } else {
            (v as f32) as f64
        }
    };
    let init: Vec<f64> = (0..n_params).map(|_| q(loc + scale * g.normal() * if integer { 3.0 } else { 1.0 })).collect();
    let mut cur = vec![init.clone(); n_chains];
    let mut hist = vec![];
    for _ in 0..len {
        let mut upd = vec![];
        for c in 0..n_chains {
            // MH-like: stay with probability 0.4, else move; chains drift apart for kind >= 4
            if g.unif() < 0.6 {
                for k in 0..n_params {
                    let drift = if kind >= 4 { 0.01 * c as f64 } else { 0.0 };
                    cur[c][k] = q(loc + drift * scale + 0.7 * (cur[c][k] - loc) + scale * g.normal() * if integer { 3.0 } else { 1.0 });
                }
            }
            upd.push(cur[c].clone());
        }
        hist.push(upd);
    }
    (init, hist)
}

pub fn run(ctx: &Ctx) {
    let worst = Mutex::new(Worst { mean: 0.0, var: 0.0, rhat_own: 0.0, rhat_multi: 0.0 });
    ctx.rule("E3 history exploration: ALL update sequences over values {0,1,3} for 2 chains x {1,2} params up to the stated depth (prefix tree, real trackers cloned per node), every oracle checked after EVERY update; plus fixed enumerated long histories (MH-like stay/move sequences, up to 5000 updates, 2..16 chains, 1..8 params, f32/f64/i32/u8, location/scale <= 10; f64 trackers are built from the f64 initial state, and all sequences over the not-f32-representable values {0.1, 1/3, 0.7} are explored for f64). states = distinct histories (reference-model states), transitions = updates applied; non-trivial = every node (each carries count/mean/variance/EMA/R-hat comparisons)");
    // exhaustive histories
    let alphabet = [0.0, 1.0, 3.0];
    let plans: Vec<(usize, usize, usize)> = if ctx.tier.thorough() { vec![(2, 1, 6), (2, 2, 4), (3, 1, 4)] } else { vec![(2, 1, 4), (2, 2, 3), (3, 1, 3)] };
    ctx.extra("exhaustive_histories", json!(plans.iter().map(|(c, p, d)| format!("{c} chains x {p} params, all sequences up to length {d} over {{0,1,3}}")).collect::<Vec<_>>()));
    // tiny-scale and one-ulp alphabets: 'state differs from previous state' must be an exact comparison
    for (alpha, tag) in [([0.0, 1e-9, 2e-9], "tiny"), ([1.0, 1.0 + 2f64.powi(-23), 1.0 + 2f64.powi(-22)], "ulp"), ([-3e-20, 0.0, 3e-20], "tiny-signed")] {
        for init_v in [alpha[0], alpha[1]] {
            let root = new_node(2, 1, &[init_v]);
            let mut states = vec![];
            dfs(ctx, &worst, &root, &alpha, ctx.tier.pick(3, 4), 2, 1, "f32", &mut states);
            ctx.outcome(&format!("histories over the {tag} alphabet"), states.len() as u64);
            ctx.distinct_bulk(states.iter().cloned());
            ctx.states_bulk(states);
        }
    }
    // f64 chains whose values are NOT representable in f32 (0.1, 1/3, 0.7; distinct at f32 resolution), trackers built
    // from the f64 initial state: a first fed state equal to the initial state is a stay, not a move
    for init_v in [0.1, 1.0 / 3.0] {
        let alpha = [0.1, 1.0 / 3.0, 0.7];
        let root = new_node_ty(2, 1, &[init_v], "f64");
        let mut states = vec![];
        dfs(ctx, &worst, &root, &alpha, ctx.tier.pick(3, 4), 2, 1, "f64", &mut states);
        ctx.outcome("histories over the f64 (not f32-representable) alphabet", states.len() as u64);
        ctx.distinct_bulk(states.iter().cloned());
        ctx.states_bulk(states);
    }
    for (n_chains, n_params, depth) in plans {
        for ty in ["f32", "i32"] {
            for init_v in [0.0, 1.0] {
                // the biggest tree (3^16 histories) is explored once (f32, init 0); the others for every (type, init)
                if 3u64.pow((n_chains * n_params * depth) as u32) > 10_000_000 && !(ty == "f32" && init_v == 0.0) {
                    continue;
                }
                let root = new_node(n_chains, n_params, &vec![init_v; n_params]);
                // parallelise over the first update
                let cells = n_chains * n_params;
                let total = 3u64.pow(cells as u32);
                (0..total).into_par_iter().for_each(|idx| {
                    let mut i = idx;
                    let mut upd = vec![vec![0.0; n_params]; n_chains];
                    for c in 0..n_chains {
                        for k in 0..n_params {
                            upd[c][k] = alphabet[(i % 3) as usize];
                            i /= 3;
                        }
                    }
                    let mut child = root.clone();
                    let mut states = vec![];
                    if apply_ty(ctx, &worst, &mut child, &upd, ty) {
                        let flat: Vec<f64> = child.hist.iter().flatten().flatten().cloned().collect();
                        states.push(hash_f64s(ty, &flat) ^ hash_f64s("init", &child.init));
                        dfs(ctx, &worst, &child, &alphabet, depth - 1, n_chains, n_params, ty, &mut states);
                    }
                    ctx.distinct_bulk(states.iter().cloned());
                    ctx.states_bulk(states);
                });
            }
        }
    }
    // families
    let lens: Vec<usize> = if ctx.tier.thorough() { vec![2, 3, 10, 100, 1000, 5000] } else { vec![2, 3, 10, 100, 600] };
    let mut jobs = vec![];
    for &len in &lens {
        for &c in &[2usize, 3, 8, 16] {
            for &p in &[1usize, 2, 8] {
                for ty in ["f32", "f64", "i32", "u8"] {
                    for kind in 0..ctx.tier.pick(4usize, 8) {
                        if len * c * p > ctx.tier.pick(40_000, 700_000) {
                            continue;
                        }
                        jobs.push((len, c, p, ty, kind));
                    }
                }
            }
        }
    }
    ctx.extra("family_histories", json!(jobs.len()));
    jobs.par_iter().enumerate().for_each(|(j, (len, c, p, ty, kind))| {
        let seed = 1000 + j as u64;
        let (init, hist) = family_history(seed, *len, *c, *p, *kind, ty);
        let mut node = new_node_ty(*c, *p, &init, ty);
        node.case_override = Some(json!({"family_history": {"seed": seed, "len": len, "chains": c, "params": p, "ty": ty, "kind": kind}}));
        for upd in hist.iter() {
            if !apply_ty(ctx, &worst, &mut node, upd, ty) {
                break;
            }
            node.hist.clear(); // long families are re-generated from the spec on replay
        }
        let h = hash_of(&(seed, *len, *c, *p, *ty, *kind));
        ctx.state(h);
        ctx.distinct(h);
        if ctx.n_samples() < 5 {
            ctx.sample(json!({"family_history": {"seed": seed, "len": len, "chains": c, "params": p, "ty": ty, "kind": kind, "first_update": hist[0].iter().map(|r| jfs(r)).collect::<Vec<_>>()}}));
        }
    });
    ctx.sample(json!({"exhaustive_history": {"ty": "f32", "init": [0.0], "updates": [[[0.0], [3.0]], [[1.0], [3.0]], [[1.0], [0.0]]]}}));
    let w = worst.lock().unwrap();
    ctx.extra("worst_error_over_tolerance", json!({"mean": w.mean, "variance": w.var, "collect_rhat_vs_own_stats": w.rhat_own, "multi_rhat_vs_batch": w.rhat_multi}));
    if ctx.outcome_count("rhat-compared") < 100 {
        ctx.machinery_error("vacuity guard: fewer than 100 R-hat comparisons");
    }
    ctx.assume("the statement leaves the EMA's initial value and the way a multi-chain update combines the chains' indicators open: only range and unanimous-case monotonicity are demanded there");
    ctx.assume("tracker moments are f32 running means: tolerance c*eps32*max|x|^2*(1+ln n)");
}

pub fn check_case(ctx: &Ctx, case: &Value) {
    let worst = Mutex::new(Worst { mean: 0.0, var: 0.0, rhat_own: 0.0, rhat_multi: 0.0 });
    if let Some(f) = case.get("family_history") {
        let (seed, len, c, p, kind) = (f["seed"].as_u64().unwrap(), f["len"].as_u64().unwrap() as usize, f["chains"].as_u64().unwrap() as usize, f["params"].as_u64().unwrap() as usize, f["kind"].as_u64().unwrap() as usize);
        let ty = f["ty"].as_str().unwrap_or("f32").to_string();
        let (init, hist) = family_history(seed, len, c, p, kind, &ty);
        let mut node = new_node_ty(c, p, &init, &ty);
        node.case_override = Some(case.clone());
        for upd in hist.iter() {
            if !apply_ty(ctx, &worst, &mut node, upd, &ty) {
                break;
            }
            node.hist.clear();
        }
        return;
    }
    let Some(h) = case.get("history") else { return };
    let ty = h["ty"].as_str().unwrap_or("f32").to_string();
    let init = pfs(&h["init"]);
    let ups: Vec<Vec<Vec<f64>>> = h["updates"].as_array().map(|a| a.iter().map(|t| t.as_array().map(|cs| cs.iter().map(pfs).collect()).unwrap_or_default()).collect()).unwrap_or_default();
    if ups.is_empty() {
        return;
    }
    let mut node = new_node_ty(ups[0].len(), init.len(), &init, &ty);
    for u in ups.iter() {
        if !apply_ty(ctx, &worst, &mut node, u, &ty) {
            break;
        }
    }
}
