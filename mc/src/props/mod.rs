//! One module per property; `run` dispatches on the property id.
use crate::common::Ctx;
use serde_json::Value;

pub mod c01;
pub mod c02;
pub mod c03;
pub mod c04;
pub mod c05;
pub mod c07;
pub mod c07_sched;
pub mod c08;
pub mod c09;
pub mod c10;
pub mod c11;
pub mod c12;
pub mod c13;
pub mod c14;
pub mod c15;
pub mod c16;
pub mod c17;
pub mod c18;
pub mod nutsref;
pub mod statsgen;

pub fn level_of(id: &str) -> &'static str {
    match id {
        "C15" => "exploration",
        _ => "model_checking",
    }
}

pub fn run(id: &str, ctx: &Ctx) -> bool {
    match id {
        "C01" => c01::run(ctx),
        "C02" => c02::run(ctx),
        "C03" => c03::run(ctx),
        "C04" => c04::run(ctx),
        "C05" => c05::run(ctx),
        "C07" => c07::run(ctx),
        "C08" => c08::run(ctx),
        "C09" => c09::run(ctx),
        "C10" => c10::run(ctx),
        "C11" => c11::run(ctx),
        "C12" => c12::run(ctx),
        "C13" => c13::run(ctx),
        "C14" => c14::run(ctx),
        "C15" => c15::run(ctx),
        "C16" => c16::run(ctx),
        "C17" => c17::run(ctx),
        "C18" => c18::run(ctx),
        _ => return false,
    }
    true
}

pub fn replay(id: &str, ctx: &Ctx, case: &Value) -> Option<()> {
    match id {
        "C01" => c01::check_case(ctx, case),
        "C02" => c02::check_case(ctx, case),
        "C03" => c03::check_case(ctx, case),
        "C04" => c04::check_case(ctx, case),
        "C05" => c05::check_case(ctx, case),
        "C07" => c07::check_case(ctx, case),
        "C08" => c08::check_case(ctx, case),
        "C09" => c09::check_case(ctx, case),
        "C10" => c10::check_case(ctx, case),
        "C11" => c11::check_case(ctx, case),
        "C12" => c12::check_case(ctx, case),
        "C13" => c13::check_case(ctx, case),
        "C14" => c14::check_case(ctx, case),
        "C15" => c15::check_case(ctx, case),
        "C16" => c16::check_case(ctx, case),
        "C17" => c17::check_case(ctx, case),
        "C18" => c18::check_case(ctx, case),
        _ => return None,
    }
    Some(())
}
