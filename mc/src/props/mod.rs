//! One module per property; `run` dispatches on the property id.
use crate::common::Ctx;
use serde_json::Value;

pub mod c18;

pub fn level_of(id: &str) -> &'static str {
    match id {
        "C15" => "exploration",
        _ => "model_checking",
    }
}

pub fn run(id: &str, ctx: &Ctx) -> bool {
    match id {
        "C18" => c18::run(ctx),
        _ => return false,
    }
    true
}

pub fn replay(id: &str, ctx: &Ctx, case: &Value) -> Option<()> {
    match id {
        "C18" => c18::check_case(ctx, case),
        _ => return None,
    }
    Some(())
}
