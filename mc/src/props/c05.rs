//! C05 — Gibbs step: every coordinate once, in order, conditioning on the freshest state; exact invariance
//! of finite joints (explicit-state kernel built by enumerating every outcome sequence of a sweep).
use crate::common::*;
use mini_mcmc::core::{ChainRunner, MarkovChain};
use mini_mcmc::distributions::Conditional;
use mini_mcmc::gibbs::{GibbsMarkovChain, GibbsSampler};
use rayon::prelude::*;
use serde_json::{json, Value};
use std::collections::HashMap;
use std::sync::atomic::{AtomicU64, Ordering};
use std::sync::{Arc, Mutex};

// ---------------------------------------------------------------- recording conditional

type Log<S> = Arc<Mutex<HashMap<u64, Vec<(usize, Vec<S>, S)>>>>;

struct Rec<S> {
    id: u64,
    next_id: Arc<AtomicU64>,
    /// calls 1..=echo_until answer the coordinate's CURRENT value (a sweep that reproduces the state), later ones fresh values
    echo_until: u64,
    counter: u64,
    log: Log<S>,
    make: fn(u64, u64) -> S,
}
impl<S> Clone for Rec<S> {
    fn clone(&self) -> Self {
        // a clone is a new instance (new id) that carries the state of the original (its call counter), like any stateful conditional
        Rec { id: self.next_id.fetch_add(1, Ordering::SeqCst), next_id: self.next_id.clone(), echo_until: self.echo_until, counter: self.counter, log: self.log.clone(), make: self.make }
    }
}
impl<S: Clone> Conditional<S> for Rec<S> {
    fn sample(&mut self, index: usize, given: &[S]) -> S {
        self.counter += 1;
        let v = if self.counter <= self.echo_until { given[index].clone() } else { (self.make)(self.id, self.counter) };
        self.log.lock().unwrap().entry(self.id).or_default().push((index, given.to_vec(), v.clone()));
        v
    }
}
fn new_rec<S>(make: fn(u64, u64) -> S) -> Rec<S> {
    Rec { id: 0, next_id: Arc::new(AtomicU64::new(1)), echo_until: 0, counter: 0, log: Arc::new(Mutex::new(HashMap::new())), make }
}

fn mk_f64(id: u64, c: u64) -> f64 {
    1000.0 * id as f64 + c as f64 + 0.5
}
/// answers that include the special float values: NaN, -0.0, +-inf (a sweep writes WHATEVER the conditional answers)
fn mk_f64_special(id: u64, c: u64) -> f64 {
    match c % 7 {
        0 => f64::NAN,
        2 => -0.0,
        3 => f64::INFINITY,
        5 => f64::NEG_INFINITY,
        _ => 1000.0 * id as f64 + c as f64 + 0.5,
    }
}
fn mk_f32_special(id: u64, c: u64) -> f32 {
    match c % 5 {
        0 => f32::NAN,
        2 => -0.0,
        3 => f32::INFINITY,
        _ => (100 * id + c) as f32 + 0.5,
    }
}
fn mk_f32(id: u64, c: u64) -> f32 {
    (100 * id + c) as f32 + 0.5
}
fn mk_i32(id: u64, c: u64) -> i32 {
    (100000 * id + c) as i32
}

trait Bits: Clone + Send + Sync + 'static {
    fn bits(&self) -> u64;
}
impl Bits for f64 {
    fn bits(&self) -> u64 {
        self.to_bits()
    }
}
impl Bits for f32 {
    fn bits(&self) -> u64 {
        self.to_bits() as u64
    }
}
impl Bits for i32 {
    fn bits(&self) -> u64 {
        *self as u32 as u64
    }
}
fn bv<S: Bits>(v: &[S]) -> Vec<u64> {
    v.iter().map(|x| x.bits()).collect()
}

/// List model of n sweeps: checks call log (index, given) and the final state.
fn check_log<S: Bits>(ctx: &Ctx, ty: &str, init: &[S], log: &[(usize, Vec<S>, S)], steps: usize, finals: &[S], case: &Value) {
    let d = init.len();
    let mut model: Vec<u64> = bv(init);
    let mk = |key: &str, what: String| Violation::new(key, what, case.clone());
    if log.len() != steps * d {
        ctx.violation(mk("C05:call-count", format!("{} conditional calls for {steps} step(s) of a {d}-dimensional chain ({ty}); expected {}", log.len(), steps * d)));
        return;
    }
    for (n, (idx, given, val)) in log.iter().enumerate() {
        let want_idx = n % d;
        if *idx != want_idx {
            ctx.violation(mk("C05:order", format!("call {n} asks for coordinate {idx}, a sweep visits coordinate {want_idx} at that point")));
            return;
        }
        if bv(given) != model {
            let diff: Vec<usize> = (0..d.min(given.len())).filter(|k| given[*k].bits() != model[*k]).collect();
            ctx.violation(mk("C05:stale-or-wrong-given", format!("call {n} (coordinate {idx}): the state passed to the conditional differs from the freshest state in coordinates {diff:?} (length {} vs {d})", given.len())));
            return;
        }
        model[*idx] = val.bits();
    }
    if bv(finals) != model {
        let diff: Vec<usize> = (0..d.min(finals.len())).filter(|k| finals[*k].bits() != model[*k]).collect();
        ctx.violation(mk("C05:final-state", format!("state after the step(s) differs from the model in coordinates {diff:?}")));
    }
}

fn inits_f64(d: usize) -> Vec<(&'static str, Vec<f64>)> {
    vec![
        ("zeros", vec![0.0; d]),
        ("ramp", (0..d).map(|k| k as f64 - 3.0).collect()),
        ("nan", (0..d).map(|k| if k % 3 == 1 { f64::NAN } else { -(k as f64) }).collect()),
        ("negzero-inf", (0..d).map(|k| if k % 2 == 0 { -0.0 } else { f64::INFINITY }).collect()),
    ]
}

fn sweep_checks(ctx: &Ctx) {
    let dims: Vec<usize> = (1..=64).collect();
    dims.par_iter().for_each(|&d| {
        for steps in 1..=3usize {
            // single chain, direct step()
            for (name, init) in inits_f64(d) {
                let case = json!({"kind": "sweep", "ty": "f64", "d": d, "steps": steps, "init": name, "chains": 1});
                let rec = new_rec::<f64>(mk_f64);
                let log = rec.log.clone();
                let r = catch(|| {
                    let mut chain = GibbsMarkovChain::new(rec, &init);
                    let mut last = vec![];
                    for _ in 0..steps {
                        last = chain.step().clone();
                    }
                    (last, chain.current_state().clone())
                });
                ctx.evals(1);
                ctx.transitions(steps as u64);
                ctx.state(hash_str(&case.to_string()));
                match r {
                    Err(m) => ctx.violation(Violation::new("C05:panic", format!("step panicked: {m}"), case)),
                    Ok((ret, cur)) => {
                        let lg = log.lock().unwrap().get(&0).cloned().unwrap_or_default();
                        check_log(ctx, "f64", &init, &lg, steps, &cur, &case);
                        if d == 3 && steps == 1 {
                            ctx.sample_tagged("one sweep (recording conditional)", || json!({"input": case.clone(), "calls(index, given)": lg.iter().map(|(i, g, _)| json!([i, jfs(g)])).collect::<Vec<_>>(), "state_after": jfs(&cur)}));
                        }
                        if bv(&ret) != bv(&cur) {
                            ctx.violation(Violation::new("C05:step-return", "step() returned something else than current_state()", case.clone()));
                        }
                        ctx.distinct(hash_of(&(d, steps, name)));
                    }
                }
            }
            // history with the public current_state re-assigned between two sweeps
            if steps == 1 {
                let init: Vec<f64> = (0..d).map(|k| k as f64).collect();
                let case = json!({"kind": "sweep", "ty": "f64", "d": d, "history": "step; assign current_state; step"});
                let rec = new_rec::<f64>(mk_f64);
                let log = rec.log.clone();
                let mut chain = GibbsMarkovChain::new(rec, &init);
                chain.step();
                let n1 = log.lock().unwrap().get(&0).map(|l| l.len()).unwrap_or(0);
                let relocated: Vec<f64> = (0..d).map(|k| -10.0 - k as f64).collect();
                chain.current_state = relocated.clone();
                chain.step();
                let lg: Vec<(usize, Vec<f64>, f64)> = log.lock().unwrap().get(&0).cloned().unwrap_or_default()[n1..].to_vec();
                check_log(ctx, "f64", &relocated, &lg, 1, chain.current_state(), &case);
                ctx.evals(1);
                ctx.transitions(2);
            }
            // conditionals whose first one or two sweeps reproduce the current state exactly (discrete models, rejected
            // Metropolis-within-Gibbs updates): the following sweeps still ask every coordinate once and write the answers
            if d <= 16 && steps <= 2 {
                let init: Vec<i32> = (0..d).map(|k| k as i32 - 3).collect();
                let case = json!({"kind": "sweep", "ty": "i32", "d": d, "answers": format!("first {steps} sweep(s) echo the current value, then fresh values")});
                let mut rec = new_rec::<i32>(mk_i32);
                rec.echo_until = (steps * d) as u64;
                let log = rec.log.clone();
                let r = catch(|| {
                    let mut chain = GibbsMarkovChain::new(rec, &init);
                    for _ in 0..steps + 2 {
                        chain.step();
                    }
                    chain.current_state().clone()
                });
                ctx.evals(1);
                ctx.transitions(steps as u64 + 2);
                match r {
                    Err(m) => ctx.violation(Violation::new("C05:panic", format!("step panicked: {m}"), case)),
                    Ok(cur) => {
                        let lg = log.lock().unwrap().get(&0).cloned().unwrap_or_default();
                        check_log(ctx, "i32", &init, &lg, steps + 2, &cur, &case);
                        ctx.outcome("state-reproducing sweeps checked", 1);
                    }
                }
                // the same through the sampler (2 chains, run)
                let initf: Vec<f64> = (0..d).map(|k| 0.5 * k as f64).collect();
                let case = json!({"kind": "sweep", "ty": "f64", "d": d, "chains": 2, "answers": format!("first {steps} sweep(s) echo the current value, then fresh values")});
                let mut rec = new_rec::<f64>(mk_f64);
                rec.echo_until = (steps * d) as u64;
                let log = rec.log.clone();
                let r = catch(|| {
                    let mut s = GibbsSampler::new(rec, vec![initf.clone(), initf.clone()]).set_seed(2);
                    s.run(steps + 1, 1).map_err(|e| e.to_string())?;
                    Ok::<_, String>(s.chains.iter().map(|c| (c.target.id, c.current_state.clone())).collect::<Vec<_>>())
                });
                ctx.evals(1);
                ctx.transitions(2 * (steps as u64 + 2));
                match r {
                    Err(m) | Ok(Err(m)) => ctx.violation(Violation::new("C05:panic", format!("GibbsSampler::run failed: {m}"), case)),
                    Ok(Ok(chains)) => {
                        let g = log.lock().unwrap();
                        for (id, cur) in chains {
                            let lg = g.get(&id).cloned().unwrap_or_default();
                            check_log(ctx, "f64", &initf, &lg, steps + 2, &cur, &case);
                        }
                    }
                }
            }
            // conditionals whose answers include NaN, -0.0 and +-inf: the answer is written as it is (bitwise model)
            if d <= 16 {
                let init: Vec<f64> = (0..d).map(|k| k as f64).collect();
                let case = json!({"kind": "sweep", "ty": "f64", "d": d, "steps": steps, "answers": "special values (NaN, -0.0, inf, -inf)"});
                let rec = new_rec::<f64>(mk_f64_special);
                let log = rec.log.clone();
                let r = catch(|| {
                    let mut chain = GibbsMarkovChain::new(rec, &init);
                    for _ in 0..steps + 2 {
                        chain.step();
                    }
                    chain.current_state().clone()
                });
                ctx.evals(1);
                ctx.transitions(steps as u64 + 2);
                match r {
                    Err(m) => ctx.violation(Violation::new("C05:panic", format!("step panicked when the conditional answers special float values: {m}"), case)),
                    Ok(cur) => {
                        let lg = log.lock().unwrap().get(&0).cloned().unwrap_or_default();
                        check_log(ctx, "f64", &init, &lg, steps + 2, &cur, &case);
                        ctx.outcome("special-value answers checked", 1);
                    }
                }
                let init: Vec<f32> = (0..d).map(|k| k as f32).collect();
                let case = json!({"kind": "sweep", "ty": "f32", "d": d, "steps": steps, "answers": "special values (NaN, -0.0, inf)", "chains": 2});
                let rec = new_rec::<f32>(mk_f32_special);
                let log = rec.log.clone();
                let r = catch(|| {
                    let mut s = GibbsSampler::new(rec, vec![init.clone(), init.clone()]).set_seed(1);
                    s.run(steps + 1, 1).map_err(|e| e.to_string())?;
                    Ok::<_, String>(s.chains.iter().map(|c| (c.target.id, c.current_state.clone())).collect::<Vec<_>>())
                });
                ctx.evals(1);
                ctx.transitions(2 * (steps as u64 + 2));
                match r {
                    Err(m) | Ok(Err(m)) => ctx.violation(Violation::new("C05:panic", format!("GibbsSampler::run failed when the conditional answers special float values: {m}"), case)),
                    Ok(Ok(chains)) => {
                        let g = log.lock().unwrap();
                        for (id, cur) in chains {
                            let lg = g.get(&id).cloned().unwrap_or_default();
                            check_log(ctx, "f32", &init, &lg, steps + 2, &cur, &case);
                        }
                    }
                }
            }
            // histories in which the public current_state is replaced by a state of ANOTHER length between two sweeps
            // (append a latent coordinate / drop one): the sweep covers every coordinate of the chain's CURRENT state
            if steps == 1 {
                for d2 in [d + 1, d + 3, 2 * d, d.saturating_sub(1), d / 2] {
                    if d2 == 0 || d2 == d {
                        continue;
                    }
                    let init: Vec<f64> = (0..d).map(|k| k as f64).collect();
                    let case = json!({"kind": "sweep", "ty": "f64", "d": d, "history": format!("step; assign a current_state of length {d2}; step")});
                    let rec = new_rec::<f64>(mk_f64);
                    let log = rec.log.clone();
                    let relocated: Vec<f64> = (0..d2).map(|k| -10.0 - k as f64).collect();
                    let r = catch(|| {
                        let mut chain = GibbsMarkovChain::new(rec, &init);
                        chain.step();
                        let n1 = log.lock().unwrap().get(&0).map(|l| l.len()).unwrap_or(0);
                        chain.current_state = relocated.clone();
                        chain.step();
                        (n1, chain.current_state().clone())
                    });
                    ctx.evals(1);
                    ctx.transitions(2);
                    match r {
                        Err(m) => ctx.violation(Violation::new("C05:panic", format!("step panicked after current_state was replaced by a state of length {d2} (chain built with length {d}): {m}"), case)),
                        Ok((n1, cur)) => {
                            let lg: Vec<(usize, Vec<f64>, f64)> = log.lock().unwrap().get(&0).cloned().unwrap_or_default()[n1..].to_vec();
                            check_log(ctx, "f64", &relocated, &lg, 1, &cur, &case);
                            ctx.outcome("length-change-history-checked", 1);
                        }
                    }
                }
            }
            // two consecutive runs of one sampler: the conditional a chain asks in the second run is the chain's own,
            // carrying whatever state it accumulated in the first run (Conditional::sample takes &mut self)
            if steps <= 2 && (d <= 8 || d % 16 == 0) {
                for n_chains in 1..=3usize {
                    for second_progress in [false, true] {
                        if second_progress && d > 4 {
                            continue;
                        }
                        // (run_progress computes split diagnostics, which need >= 4 draws)
                        let (k1, k2) = (steps, if second_progress { 4 } else { 3 - steps });
                        let inits: Vec<Vec<f64>> = (0..n_chains).map(|c| (0..d).map(|k| (c * 100 + k) as f64).collect()).collect();
                        let case = json!({"kind": "sweep", "ty": "f64", "d": d, "chains": n_chains, "history": format!("run({k1},0); {}({k2},0)", if second_progress { "run_progress" } else { "run" })});
                        let rec = new_rec::<f64>(mk_f64);
                        let log = rec.log.clone();
                        let r = catch(|| {
                            let mut s = GibbsSampler::new(rec, inits.clone()).set_seed(5 + d as u64);
                            s.run(k1, 0).map_err(|e| e.to_string())?;
                            let ids1: Vec<u64> = s.chains.iter().map(|c| c.target.id).collect();
                            let cur1: Vec<Vec<f64>> = s.chains.iter().map(|c| c.current_state.clone()).collect();
                            if second_progress {
                                s.run_progress(k2, 0).map_err(|e| e.to_string())?;
                            } else {
                                s.run(k2, 0).map_err(|e| e.to_string())?;
                            }
                            let ids2: Vec<u64> = s.chains.iter().map(|c| c.target.id).collect();
                            let counters2: Vec<u64> = s.chains.iter().map(|c| c.target.counter).collect();
                            let cur2: Vec<Vec<f64>> = s.chains.iter().map(|c| c.current_state.clone()).collect();
                            Ok::<_, String>((ids1, cur1, ids2, counters2, cur2))
                        });
                        ctx.evals(1);
                        ctx.transitions(((k1 + k2) * n_chains) as u64);
                        match r {
                            Err(m) => ctx.violation(Violation::new("C05:panic", format!("two consecutive runs panicked: {m}"), case)),
                            Ok(Err(m)) => ctx.violation(Violation::new("C05:run-error", format!("run failed: {m}"), case)),
                            Ok(Ok((ids1, cur1, ids2, counters2, cur2))) => {
                                let g = log.lock().unwrap();
                                for c in 0..n_chains {
                                    if counters2[c] != ((k1 + k2) * d) as u64 {
                                        ctx.violation(Violation::new(
                                            "C05:conditional-state-lost-between-runs",
                                            format!("chain {c}: after run({k1}) and a second run of {k2} sweep(s) on {d} coordinates the chain's conditional has counted {} calls, not {}: the second run did not ask the chain's own conditional as left by the first run", counters2[c], (k1 + k2) * d),
                                            case.clone(),
                                        ));
                                        continue;
                                    }
                                    let all = g.get(&ids2[c]).cloned().unwrap_or_default();
                                    let lg: Vec<(usize, Vec<f64>, f64)> = if ids2[c] == ids1[c] { all[(k1 * d).min(all.len())..].to_vec() } else { all };
                                    check_log(ctx, "f64", &cur1[c], &lg, k2, &cur2[c], &case);
                                }
                                ctx.outcome("two-run-history-checked", 1);
                            }
                        }
                    }
                }
            }
            // f32 and i32 states
            {
                let init: Vec<f32> = (0..d).map(|k| k as f32 * 0.5).collect();
                let case = json!({"kind": "sweep", "ty": "f32", "d": d, "steps": steps, "init": "ramp", "chains": 1});
                let rec = new_rec::<f32>(mk_f32);
                let log = rec.log.clone();
                let mut chain = GibbsMarkovChain::new(rec, &init);
                for _ in 0..steps {
                    chain.step();
                }
                let lg = log.lock().unwrap().get(&0).cloned().unwrap_or_default();
                check_log(ctx, "f32", &init, &lg, steps, chain.current_state(), &case);
                ctx.evals(1);
                ctx.transitions(steps as u64);
            }
            {
                let init: Vec<i32> = (0..d).map(|k| k as i32 - 5).collect();
                let case = json!({"kind": "sweep", "ty": "i32", "d": d, "steps": steps, "init": "ramp", "chains": 1});
                let rec = new_rec::<i32>(mk_i32);
                let log = rec.log.clone();
                let mut chain = GibbsMarkovChain::new(rec, &init);
                for _ in 0..steps {
                    chain.step();
                }
                let lg = log.lock().unwrap().get(&0).cloned().unwrap_or_default();
                check_log(ctx, "i32", &init, &lg, steps, chain.current_state(), &case);
                ctx.evals(1);
                ctx.transitions(steps as u64);
            }
            // 2..4 chains through the sampler (run = steps transitions each), distinct initial states
            if d <= 16 || d % 16 == 0 {
                for n_chains in 2..=4usize {
                    let inits: Vec<Vec<f64>> = (0..n_chains).map(|c| (0..d).map(|k| (c * 100 + k) as f64).collect()).collect();
                    let case = json!({"kind": "sweep", "ty": "f64", "d": d, "steps": steps, "init": "per-chain ramp", "chains": n_chains});
                    let rec = new_rec::<f64>(mk_f64);
                    let log = rec.log.clone();
                    let seeded = n_chains % 2 == 0 || d % 2 == 0;
                    let r = catch(|| {
                        let mut s = GibbsSampler::new(rec, inits.clone());
                        if seeded {
                            s = s.set_seed(40 + d as u64);
                        }
                        let out = s.run(steps, 0).map_err(|e| e.to_string());
                        let ids: Vec<u64> = s.chains.iter().map(|c| c.target.id).collect();
                        let cur: Vec<Vec<f64>> = s.chains.iter().map(|c| c.current_state.clone()).collect();
                        (out, ids, cur)
                    });
                    ctx.evals(1);
                    ctx.transitions((steps * n_chains) as u64);
                    match r {
                        Err(m) => ctx.violation(Violation::new("C05:panic", format!("GibbsSampler::run panicked: {m}"), case)),
                        Ok((out, ids, cur)) => {
                            if out.is_err() {
                                ctx.violation(Violation::new("C05:run-error", format!("GibbsSampler::run failed: {out:?}"), case.clone()));
                                continue;
                            }
                            let out = out.unwrap();
                            let g = log.lock().unwrap();
                            for c in 0..n_chains {
                                let lg = g.get(&ids[c]).cloned().unwrap_or_default();
                                check_log(ctx, "f64", &inits[c], &lg, steps, &cur[c], &case);
                                let last_row: Vec<f64> = (0..d).map(|k| out[[c, steps - 1, k]]).collect();
                                if bv(&last_row) != bv(&cur[c]) {
                                    ctx.violation(Violation::new("C05:final-state", format!("chain {c}: last returned draw differs from the chain's state"), case.clone()));
                                }
                            }
                        }
                    }
                }
            }
        }
    });
}

// ---------------------------------------------------------------- fault points: the conditional panics at call k

#[derive(Clone)]
struct PanicAt {
    inner: Rec<f64>,
    calls: Arc<AtomicU64>,
    at: u64,
}
impl Conditional<f64> for PanicAt {
    fn sample(&mut self, index: usize, given: &[f64]) -> f64 {
        let n = self.calls.fetch_add(1, Ordering::SeqCst);
        if n == self.at {
            panic!("injected conditional fault at call {n}");
        }
        self.inner.sample(index, given)
    }
}

/// For every dimension d <= 8 (16) and every call index k < 2d: the conditional panics at its k-th call, the
/// caller recovers (catch_unwind). The chain must then hold exactly the partially refreshed state of the list
/// model (coordinates refreshed so far keep their new values, nothing else changed), and a further sweep must be regular.
fn fault_points(ctx: &Ctx) {
    let maxd = ctx.tier.pick(8usize, 16);
    for d in 1..=maxd {
        for k in 0..(2 * d) as u64 {
            let case = json!({"kind": "fault", "d": d, "panic_at_call": k});
            let rec = new_rec::<f64>(mk_f64);
            let log = rec.log.clone();
            let init: Vec<f64> = (0..d).map(|j| -(j as f64) - 1.0).collect();
            let cond = PanicAt { inner: rec, calls: Arc::new(AtomicU64::new(0)), at: k };
            let mut chain = GibbsMarkovChain::new(cond, &init);
            ctx.evals(1);
            ctx.transitions(3);
            ctx.state(hash_str(&case.to_string()));
            let mut faults = 0;
            let mut ok = true;
            for sweep in 0..3 {
                let start_state: Vec<f64> = chain.current_state().clone();
                let n_before = log.lock().unwrap().get(&0).map(|l| l.len()).unwrap_or(0);
                let r = std::panic::catch_unwind(std::panic::AssertUnwindSafe(|| {
                    chain.step();
                }));
                let calls: Vec<(usize, Vec<f64>, f64)> = log.lock().unwrap().get(&0).cloned().unwrap_or_default()[n_before..].to_vec();
                // every completed call of this sweep saw the freshest state
                let mut running = start_state.clone();
                for (n, (idx, given, val)) in calls.iter().enumerate() {
                    if bv(given) != bv(&running) {
                        ctx.violation(Violation::new("C05:state-after-fault", format!("d={d}, conditional panicked at call {k}: in sweep {sweep}, call {n} (coordinate {idx}) was given a state that differs from the chain's freshest state (lengths {} vs {d})", given.len()), case.clone()));
                        ok = false;
                        break;
                    }
                    running[*idx] = *val;
                }
                if !ok {
                    break;
                }
                let now = chain.current_state().clone();
                if r.is_err() {
                    faults += 1;
                    // after a fault the chain may hold the partially refreshed state, or may have been rolled back to the
                    // state at the start of the interrupted sweep — but it must not lose or invent coordinates
                    if bv(&now) != bv(&running) && bv(&now) != bv(&start_state) {
                        ctx.violation(Violation::new("C05:state-after-fault", format!("d={d}, conditional panicked at call {k}: afterwards the chain holds {now:?}; neither the partially refreshed state {running:?} nor the state before the sweep {start_state:?}"), case.clone()));
                        ok = false;
                        break;
                    }
                } else if bv(&now) != bv(&running) || calls.len() != d {
                    ctx.violation(Violation::new("C05:state-after-fault", format!("d={d}, fault at call {k}: sweep {sweep} (no fault) made {} calls and left {now:?}, the list model gives {running:?}", calls.len()), case.clone()));
                    ok = false;
                    break;
                }
            }
            if ok {
                ctx.outcome("fault-points-ok", 1);
            }
            if faults != 1 {
                ctx.machinery_error(format!("fault injection: expected exactly one panic, saw {faults}"));
            }
        }
    }
}

// ---------------------------------------------------------------- explicit-state kernel

/// Conditional of a finite joint table; the value returned is dictated by a script (one choice per call),
/// the conditional probability of that choice is accumulated.
#[derive(Clone)]
struct TableCond {
    levels: usize,
    d: usize,
    weights: Arc<Vec<f64>>, // joint weights, index = sum s_k * levels^k
    script: Vec<usize>,
    pos: usize,
    prob: f64,
    trace: Vec<(usize, Vec<i32>)>,
}
impl TableCond {
    fn index(&self, s: &[i32]) -> usize {
        s.iter().enumerate().map(|(k, v)| *v as usize * self.levels.pow(k as u32)).sum()
    }
}
impl Conditional<i32> for TableCond {
    fn sample(&mut self, index: usize, given: &[i32]) -> i32 {
        let mut s = given.to_vec();
        let mut w = vec![0.0; self.levels];
        for v in 0..self.levels {
            s[index] = v as i32;
            w[v] = self.weights[self.index(&s)];
        }
        let tot: f64 = w.iter().sum();
        let choice = self.script.get(self.pos).copied().unwrap_or(0);
        self.pos += 1;
        self.trace.push((index, given.to_vec()));
        if tot > 0.0 {
            self.prob *= w[choice] / tot;
        } else {
            self.prob = 0.0;
        }
        choice as i32
    }
}

fn joint_tables(levels: usize, d: usize, thorough: bool) -> Vec<Vec<f64>> {
    let n = levels.pow(d as u32);
    let mut out: Vec<Vec<f64>> = vec![];
    // every table over {0,1,2,3} for 2x2 (256 - zero table), structured ones otherwise
    if levels == 2 && d == 2 {
        for idx in 1u32..256 {
            out.push((0..4).map(|k| ((idx >> (2 * k)) & 3) as f64).collect());
        }
    } else {
        let reps = if thorough { 150 } else { 12 };
        for r in 0..reps {
            let mut g = crate::refs::Lcg::new(777 + r as u64 + (levels * 10 + d) as u64);
            let zero_rate = [0u64, 3, 5][r % 3];
            let t: Vec<f64> = (0..n).map(|_| if zero_rate > 0 && g.below(zero_rate) == 0 { 0.0 } else { 1.0 + g.below(4) as f64 }).collect();
            if t.iter().any(|x| *x > 0.0) {
                out.push(t);
            }
        }
        // strongly correlated ("diagonal-heavy") table: staleness of the conditioning state is most visible here
        out.push((0..n).map(|i| {
            let digits: Vec<usize> = (0..d).map(|k| (i / levels.pow(k as u32)) % levels).collect();
            if digits.iter().all(|x| *x == digits[0]) { 8.0 } else { 1.0 }
        }).collect());
    }
    out
}

fn kernel_checks(ctx: &Ctx) {
    let plans: Vec<(usize, usize)> = if ctx.tier.thorough() { vec![(2, 2), (2, 3), (3, 2), (2, 4), (3, 3), (4, 2), (2, 5), (4, 3), (2, 6)] } else { vec![(2, 2), (2, 3), (3, 2)] };
    ctx.extra("finite_kernels", json!(plans.iter().map(|(l, d)| format!("{{0..{}}}^{d}", l - 1)).collect::<Vec<_>>()));
    for (levels, d) in plans {
        let tables = joint_tables(levels, d, ctx.tier.thorough());
        tables.par_iter().for_each(|w| {
            let n = levels.pow(d as u32);
            let total: f64 = w.iter().sum();
            let pi: Vec<f64> = w.iter().map(|x| x / total).collect();
            let case = json!({"kind": "kernel", "levels": levels, "d": d, "weights": w});
            // exact P by enumerating every outcome sequence of one sweep from every start state
            let mut p = vec![vec![0.0f64; n]; n];
            let n_scripts = levels.pow(d as u32);
            for s0 in 0..n {
                if pi[s0] == 0.0 {
                    continue;
                }
                let start: Vec<i32> = (0..d).map(|k| ((s0 / levels.pow(k as u32)) % levels) as i32).collect();
                let mut row_sum = 0.0;
                for sc in 0..n_scripts {
                    let script: Vec<usize> = (0..d).map(|k| (sc / levels.pow(k as u32)) % levels).collect();
                    let cond = TableCond { levels, d, weights: Arc::new(w.clone()), script, pos: 0, prob: 1.0, trace: vec![], };
                    let mut chain = GibbsMarkovChain::new(cond, &start);
                    chain.step();
                    ctx.transitions(1);
                    let end = chain.current_state.clone();
                    let e: usize = end.iter().enumerate().map(|(k, v)| *v as usize * levels.pow(k as u32)).sum();
                    let pr = chain.target.prob;
                    if chain.target.pos != d {
                        ctx.violation(Violation::new("C05:call-count", format!("one sweep consumed {} conditional draws in dimension {d}", chain.target.pos), case.clone()));
                        return;
                    }
                    p[s0][e] += pr;
                    row_sum += pr;
                }
                if (row_sum - 1.0).abs() > 1e-12 {
                    ctx.violation(Violation::new("C05:kernel-row", format!("outcome probabilities of one sweep from state {start:?} sum to {row_sum}"), case.clone()));
                    return;
                }
                ctx.state(hash_of(&(levels, d, s0, hash_f64s("w", w))));
            }
            ctx.evals(1);
            // invariance pi P = pi
            for e in 0..n {
                let v: f64 = (0..n).map(|s| pi[s] * p[s][e]).sum();
                if (v - pi[e]).abs() > 1e-12 {
                    ctx.violation(Violation::new(
                        "C05:invariance",
                        format!("the implemented sweep does not leave the joint invariant: (pi P)[{e}] = {v}, pi[{e}] = {} (levels {levels}, d {d}, weights {w:?})", pi[e]),
                        case.clone(),
                    ));
                    return;
                }
            }
            ctx.sample_tagged("exact kernel of one sweep", || json!({"levels": levels, "d": d, "weights": w, "P(row 0)": p.iter().find(|r| r.iter().any(|x| *x > 0.0)).cloned()}));
            ctx.distinct(hash_f64s("kernel", w) ^ hash_of(&(levels, d)));
            ctx.outcome("kernels-invariant", 1);
        });
    }
}

pub fn run(ctx: &Ctx) {
    ctx.rule("(a) recording conditional (logs index + a copy of `given`, returns a fresh unique value) for EVERY dimension 1..64, 1..3 steps, initial states {zeros, ramp, NaN-containing, -0/inf} (f64), f32, i32, and 2..4 chains through GibbsSampler::run, against a list model; answers containing NaN / -0.0 / +-inf, and conditionals whose first sweeps reproduce the current state exactly (d <= 16, chain and sampler); histories: the public current_state re-assigned (same length, longer, shorter) between two sweeps; two consecutive runs (run;run and run;run_progress) in which the recording conditional's own call counter must continue; (a') fault points: the conditional panics at its k-th call for every k < 2d, d <= 8 (16), the caller recovers and the chain must hold exactly the partially refreshed state; (b) explicit-state: for finite joints (all 255 weight tables over {0..3} on {0,1}^2; structured tables incl. zeros and a diagonal-heavy one on larger spaces) the exact kernel P is built by enumerating EVERY outcome sequence of one real sweep from every positive-probability state, then pi P = pi to 1e-12. states = start states x tables (+ sweep configurations); transitions = sweeps executed");
    sweep_checks(ctx);
    fault_points(ctx);
    kernel_checks(ctx);
    if ctx.outcome_count("kernels-invariant") < 20 {
        ctx.machinery_error("vacuity guard: fewer than 20 finite kernels were checked");
    }
}

pub fn check_case(ctx: &Ctx, _case: &Value) {
    // cheap and deterministic: re-run the quick enumeration (the recorded case is part of it)
    run(ctx);
}
