//! C02 — HMC update = L leapfrog steps + Metropolis test on the Hamiltonian; row independence; reversibility.
use crate::burnutil::*;
use crate::common::*;
use crate::zoo::GaussND;
use burn::prelude::*;
use burn::tensor::backend::AutodiffBackend;
use mini_mcmc::distributions::{BatchedGradientTarget, DiffableGaussian2D, Rosenbrock2D, RosenbrockND};
use mini_mcmc::hmc::HMC;
use mini_mcmc::verif;
use num_traits::Float;
use rayon::prelude::*;
use serde_json::{json, Value};
use std::cell::RefCell;
use std::collections::HashMap;
use std::rc::Rc;

// ------------------------------------------------------------------ targets (library built-ins + harness ones) behind one type

#[derive(Clone, Debug)]
pub enum AnyTarget<T: Float> {
    Gauss2D(DiffableGaussian2D<T>),
    Rosen2D(Rosenbrock2D<T>),
    RosenND,
    GaussND(GaussND),
    StudentT { nu: f64 },
    Quartic,
    /// steep linear log-density slope * sum(x): gradient components of magnitude `slope` (1e6 and beyond); leapfrog is exact on it
    Linear { slope: f64 },
    /// Gamma(2,1) per coordinate: ln x - x : NaN left of 0, -inf at 0 (C14)
    LogX,
    /// sqrt-domain: -x^2/2 + ln(sqrt(x)) : NaN for x < 0 (C14)
    SqrtDom,
    /// box indicator on [-1,1]^D as a smooth-inside / -inf-outside density: -x^2/2 + ln(1{|x|<=1}) (C14)
    Box1,
}

impl<T, B> BatchedGradientTarget<T, B> for AnyTarget<T>
where
    T: Float + burn::tensor::ElementConversion + std::fmt::Debug + burn::tensor::Element,
    B: AutodiffBackend,
{
    fn unnorm_logp_batch(&self, p: Tensor<B, 2>) -> Tensor<B, 1> {
        match self {
            AnyTarget::Gauss2D(g) => <DiffableGaussian2D<T> as BatchedGradientTarget<T, B>>::unnorm_logp_batch(g, p),
            AnyTarget::Rosen2D(r) => <Rosenbrock2D<T> as BatchedGradientTarget<T, B>>::unnorm_logp_batch(r, p),
            AnyTarget::RosenND => <RosenbrockND as BatchedGradientTarget<T, B>>::unnorm_logp_batch(&RosenbrockND {}, p),
            AnyTarget::GaussND(g) => <GaussND as BatchedGradientTarget<T, B>>::unnorm_logp_batch(g, p),
            AnyTarget::StudentT { nu } => p.powi_scalar(2).div_scalar(*nu).add_scalar(1.0).log().sum_dim(1).squeeze::<1>(1).mul_scalar(-(*nu + 1.0) / 2.0),
            AnyTarget::Quartic => p.powi_scalar(4).sum_dim(1).squeeze::<1>(1).mul_scalar(-0.25),
            AnyTarget::Linear { slope } => p.sum_dim(1).squeeze::<1>(1).mul_scalar(*slope),
            AnyTarget::LogX => (p.clone().log() - p).sum_dim(1).squeeze::<1>(1),
            AnyTarget::SqrtDom => (p.clone().powi_scalar(2).mul_scalar(-0.5) + p.sqrt().log()).sum_dim(1).squeeze::<1>(1),
            AnyTarget::Box1 => {
                // -x^2/2 + ln(max(0, 1 - floor(|x|)))  : 0 inside, -inf outside (|x| >= 1 ... < 2), NaN further out is avoided by clamp
                let inside = p.clone().abs().floor().clamp(0.0, 1.0).neg().add_scalar(1.0); // 1 inside, 0 outside
                (p.powi_scalar(2).mul_scalar(-0.5) + inside.log()).sum_dim(1).squeeze::<1>(1)
            }
        }
    }
}

/// f64 reference of the same densities (parameters read from the constructed library objects).
#[derive(Clone)]
pub struct RefT {
    pub kind: String,
    pub f: std::sync::Arc<dyn Fn(&[f64]) -> f64 + Send + Sync>,
    pub g: std::sync::Arc<dyn Fn(&[f64]) -> Vec<f64> + Send + Sync>,
}

pub fn ref_of<T: Float>(t: &AnyTarget<T>) -> RefT {
    let f64v = |x: T| x.to_f64().unwrap();
    match t {
        AnyTarget::Gauss2D(g) => {
            // burn's from_floats rounds the parameters to f32 on every backend
            let r = |x: T| (f64v(x) as f32) as f64;
            let m = [r(g.mean[0]), r(g.mean[1])];
            let iv = [[r(g.inv_cov[0][0]), r(g.inv_cov[0][1])], [r(g.inv_cov[1][0]), r(g.inv_cov[1][1])]];
            let nc = f64v(g.norm_const);
            RefT {
                kind: "DiffableGaussian2D".into(),
                f: std::sync::Arc::new(move |x| {
                    let d = [x[0] - m[0], x[1] - m[1]];
                    let z = [d[0] * iv[0][0] + d[1] * iv[1][0], d[0] * iv[0][1] + d[1] * iv[1][1]];
                    nc - 0.5 * (z[0] * d[0] + z[1] * d[1])
                }),
                g: std::sync::Arc::new(move |x| {
                    let d = [x[0] - m[0], x[1] - m[1]];
                    // gradient of -1/2 d^T A d with (possibly non-symmetric after rounding) A: -1/2 (A + A^T) d
                    vec![-0.5 * ((iv[0][0] + iv[0][0]) * d[0] + (iv[0][1] + iv[1][0]) * d[1]), -0.5 * ((iv[1][0] + iv[0][1]) * d[0] + (iv[1][1] + iv[1][1]) * d[1])]
                }),
            }
        }
        AnyTarget::Rosen2D(r) => {
            let (a, b) = (f64v(r.a), f64v(r.b));
            RefT {
                kind: "Rosenbrock2D".into(),
                f: std::sync::Arc::new(move |x| -((a - x[0]).powi(2) + b * (x[1] - x[0] * x[0]).powi(2))),
                g: std::sync::Arc::new(move |x| vec![2.0 * (a - x[0]) + 4.0 * b * x[0] * (x[1] - x[0] * x[0]), -2.0 * b * (x[1] - x[0] * x[0])]),
            }
        }
        AnyTarget::RosenND => RefT {
            kind: "RosenbrockND".into(),
            f: std::sync::Arc::new(|x| {
                let mut s = 0.0;
                for k in 0..x.len() - 1 {
                    s -= 100.0 * (x[k + 1] - x[k] * x[k]).powi(2) + (1.0 - x[k]).powi(2);
                }
                s
            }),
            g: std::sync::Arc::new(|x| {
                let mut g = vec![0.0; x.len()];
                for k in 0..x.len() - 1 {
                    let r = x[k + 1] - x[k] * x[k];
                    g[k] += 400.0 * x[k] * r + 2.0 * (1.0 - x[k]);
                    g[k + 1] += -200.0 * r;
                }
                g
            }),
        },
        AnyTarget::GaussND(gn) => {
            let (a, b) = (gn.clone(), gn.clone());
            RefT { kind: format!("GaussND(d={})", gn.dim()), f: std::sync::Arc::new(move |x| a.logp(x)), g: std::sync::Arc::new(move |x| b.grad(x)) }
        }
        AnyTarget::StudentT { nu } => {
            let nu = *nu;
            RefT {
                kind: "StudentT".into(),
                f: std::sync::Arc::new(move |x| x.iter().map(|v| -(nu + 1.0) / 2.0 * (1.0 + v * v / nu).ln()).sum()),
                g: std::sync::Arc::new(move |x| x.iter().map(|v| -(nu + 1.0) * v / (nu + v * v)).collect()),
            }
        }
        AnyTarget::Quartic => RefT { kind: "Quartic".into(), f: std::sync::Arc::new(|x| x.iter().map(|v| -0.25 * v.powi(4)).sum()), g: std::sync::Arc::new(|x| x.iter().map(|v| -v.powi(3)).collect()) },
        AnyTarget::Linear { slope } => {
            let sl = *slope;
            RefT { kind: "Linear".into(), f: std::sync::Arc::new(move |x| x.iter().map(|v| sl * v).sum()), g: std::sync::Arc::new(move |x| x.iter().map(|_| sl).collect()) }
        }
        AnyTarget::LogX => RefT { kind: "LogX".into(), f: std::sync::Arc::new(|x| x.iter().map(|v| v.ln() - v).sum()), g: std::sync::Arc::new(|x| x.iter().map(|v| 1.0 / v - 1.0).collect()) },
        AnyTarget::SqrtDom => RefT { kind: "SqrtDom".into(), f: std::sync::Arc::new(|x| x.iter().map(|v| -0.5 * v * v + v.sqrt().ln()).sum()), g: std::sync::Arc::new(|x| x.iter().map(|v| -v + 0.5 / v).collect()) },
        AnyTarget::Box1 => RefT {
            kind: "Box1".into(),
            f: std::sync::Arc::new(|x| x.iter().map(|v| if v.abs() < 1.0 { -0.5 * v * v } else { f64::NEG_INFINITY }).sum()),
            g: std::sync::Arc::new(|x| x.iter().map(|v| -v).collect()),
        },
    }
}

/// velocity-Verlet reference; returns (x', p', max magnitude seen)
pub fn leapfrog_ref(t: &RefT, x: &[f64], p: &[f64], eps: f64, l: usize) -> (Vec<f64>, Vec<f64>, f64) {
    let mut x = x.to_vec();
    let mut p = p.to_vec();
    let mut scale = x.iter().chain(p.iter()).fold(1.0f64, |a, v| a.max(v.abs()));
    for _ in 0..l {
        let g = (t.g)(&x);
        for k in 0..x.len() {
            p[k] += 0.5 * eps * g[k];
        }
        for k in 0..x.len() {
            x[k] += eps * p[k];
        }
        let g2 = (t.g)(&x);
        for k in 0..x.len() {
            p[k] += 0.5 * eps * g2[k];
            scale = scale.max(x[k].abs()).max(p[k].abs()).max((eps * g[k]).abs()).max((eps * g2[k]).abs());
        }
    }
    (x, p, scale)
}

/// Error amplification of L leapfrog steps around (x, p), estimated by finite perturbation of the
/// f64 reference: max output deviation / input perturbation (>= 1). Unstable step sizes give large values;
/// tolerances are scaled by it so that rounding noise amplified by the dynamics is not mistaken for a defect.
pub fn amplification(t: &RefT, x: &[f64], p: &[f64], eps: f64, l: usize) -> f64 {
    let (x0, p0, _) = leapfrog_ref(t, x, p, eps, l);
    let mut amp: f64 = 1.0;
    for sign in [1.0, -1.0] {
        let delta = 1e-7;
        let xp: Vec<f64> = x.iter().enumerate().map(|(k, v)| v + sign * delta * (1.0 + v.abs()) * if k % 2 == 0 { 1.0 } else { -1.0 }).collect();
        let pp: Vec<f64> = p.iter().map(|v| v + sign * delta * (1.0 + v.abs())).collect();
        let (x1, p1, _) = leapfrog_ref(t, &xp, &pp, eps, l);
        let dev = x0.iter().zip(x1.iter()).chain(p0.iter().zip(p1.iter())).map(|(a, b)| (a - b).abs()).fold(0.0f64, f64::max);
        let inp = x.iter().chain(p.iter()).map(|v| delta * (1.0 + v.abs())).fold(0.0f64, f64::max);
        if dev.is_finite() {
            amp = amp.max(dev / inp);
        } else {
            amp = f64::INFINITY;
        }
    }
    amp
}

fn hamiltonian(t: &RefT, x: &[f64], p: &[f64]) -> f64 {
    -(t.f)(x) + 0.5 * p.iter().map(|v| v * v).sum::<f64>()
}

// ------------------------------------------------------------------ one instrumented step

pub struct StepRec {
    pub prev: Vec<Vec<f64>>,
    pub momentum: Vec<Vec<f64>>,
    pub uniform: Vec<f64>,
    pub proposed: Vec<Vec<f64>>,
    pub proposed_mom: Vec<Vec<f64>>,
    pub logp_current: Vec<f64>,
    pub logp_proposed: Vec<f64>,
    pub accept_logp: Vec<f64>,
    pub ln_u: Vec<f64>,
    pub after: Vec<Vec<f64>>,
}

/// Run ONE real `HMC::step` with momenta / uniforms injected (None = leave the generator's draw) and record everything.
pub fn instrumented_step<T, B>(s: &mut HMC<T, B, AnyTarget<T>>, momentum: Option<&[Vec<f64>]>, uniform: Option<&[f64]>) -> Result<StepRec, String>
where
    T: Float + burn::tensor::ElementConversion + burn::tensor::Element + rand_distr::uniform::SampleUniform + num_traits::FromPrimitive + std::fmt::Debug,
    B: AutodiffBackend,
    rand_distr::StandardNormal: rand::distr::Distribution<T>,
    rand_distr::StandardUniform: rand_distr::Distribution<T>,
{
    let prev = rows(&s.positions);
    let (n, d) = (prev.len(), prev[0].len());
    let rec: Rc<RefCell<HashMap<String, Vec<f64>>>> = Rc::new(RefCell::new(HashMap::new()));
    let r2 = rec.clone();
    let mom_flat: Option<Vec<f64>> = momentum.map(|m| m.iter().flatten().cloned().collect());
    let uni: Option<Vec<f64>> = uniform.map(|u| u.to_vec());
    let old = verif::set_tap(Some(Box::new(move |label, vals| {
        if label == "hmc.momentum" {
            if let Some(m) = &mom_flat {
                vals.copy_from_slice(m);
            }
        }
        if label == "hmc.uniform" {
            if let Some(u) = &uni {
                vals.copy_from_slice(u);
            }
        }
        r2.borrow_mut().insert(label.to_string(), vals.to_vec());
    })));
    let r = catch(|| s.step());
    verif::set_tap(old);
    r?;
    let g = rec.borrow();
    let get = |k: &str| g.get(k).cloned().ok_or_else(|| format!("hook record '{k}' missing"));
    let to_rows = |v: Vec<f64>| -> Vec<Vec<f64>> { (0..n).map(|i| v[i * d..(i + 1) * d].to_vec()).collect() };
    Ok(StepRec {
        prev,
        momentum: to_rows(get("hmc.momentum")?),
        uniform: get("hmc.uniform")?,
        proposed: to_rows(get("hmc.proposed_positions")?),
        proposed_mom: to_rows(get("hmc.proposed_momenta")?),
        logp_current: get("hmc.logp_current")?,
        logp_proposed: get("hmc.logp_proposed")?,
        accept_logp: get("hmc.accept_logp")?,
        ln_u: get("hmc.ln_u")?,
        after: rows(&s.positions),
    })
}

fn bits(v: &[f64]) -> Vec<u64> {
    v.iter().map(|x| x.to_bits()).collect()
}

pub struct Tol {
    pub rel: f64,
    pub ln_rel: f64,
}

/// Oracles (i) decision logic exact, (ii) numerics toleranced. Returns per-row "accepted".
#[allow(clippy::too_many_arguments)]
pub fn check_step(ctx: &Ctx, rt: &RefT, rec: &StepRec, eps: f64, l: usize, tol: &Tol, injected_u: Option<&[f64]>, case: &Value, f32_backend: bool) -> Vec<bool> {
    let n = rec.prev.len();
    let mut accepted = vec![false; n];
    for i in 0..n {
        // (i) decision on the implementation's own recorded operands
        let want_accept = rec.ln_u[i] <= rec.accept_logp[i];
        let at_prop = bits(&rec.after[i]) == bits(&rec.proposed[i]);
        let at_prev = bits(&rec.after[i]) == bits(&rec.prev[i]);
        accepted[i] = want_accept;
        ctx.outcome(if want_accept { "accept" } else if rec.accept_logp[i].is_nan() { "reject(NaN energy)" } else { "reject" }, 1);
        if want_accept && !at_prop {
            ctx.violation(Violation::new("C02:decision", format!("row {i}: ln u = {} <= H - H' = {} but the chain did not end at the proposal (after {:?}, proposal {:?}, previous {:?})", rec.ln_u[i], rec.accept_logp[i], rec.after[i], rec.proposed[i], rec.prev[i]), case.clone()));
        }
        if !want_accept && !at_prev {
            ctx.violation(Violation::new("C02:decision", format!("row {i}: ln u = {} > H - H' = {} but the chain is not bit-identical to its previous position (after {:?}, previous {:?}, proposal {:?})", rec.ln_u[i], rec.accept_logp[i], rec.after[i], rec.prev[i], rec.proposed[i]), case.clone()));
        }
        if let Some(u) = injected_u {
            let uu = if f32_backend { (u[i] as f32) as f64 } else { u[i] };
            let want = if f32_backend { ((uu as f32).ln()) as f64 } else { uu.ln() };
            if !((rec.ln_u[i] - want).abs() <= tol.ln_rel * want.abs().max(1e-30)) && !(want == f64::NEG_INFINITY && rec.ln_u[i] == want) {
                ctx.violation(Violation::new("C02:ln-u", format!("row {i}: recorded ln u = {} is not the logarithm of the acceptance draw {uu} ({want})", rec.ln_u[i]), case.clone()));
            }
            if (rec.uniform[i] - uu).abs() > 1e-6 * uu.abs() {
                ctx.machinery_error(format!("injected uniform {uu} was not used (recorded {})", rec.uniform[i]));
            }
        }
        // (ii) numerics against the f64 velocity-Verlet reference
        let (xr, pr, scale) = leapfrog_ref(rt, &rec.prev[i], &rec.momentum[i], eps, l);
        if !(scale < 1e6) || xr.iter().chain(pr.iter()).any(|v| !v.is_finite()) {
            ctx.outcome("numerics-skipped(unstable trajectory)", 1);
            continue;
        }
        let amp = amplification(rt, &rec.prev[i], &rec.momentum[i], eps, l);
        if !(amp < 1e6) {
            ctx.outcome("numerics-skipped(ill-conditioned trajectory)", 1);
            continue;
        }
        let t = tol.rel * scale * (l as f64 + 1.0) * amp;
        let mut bad = vec![];
        for k in 0..xr.len() {
            if !((rec.proposed[i][k] - xr[k]).abs() <= t) {
                bad.push(format!("x'[{k}] {} vs {}", rec.proposed[i][k], xr[k]));
            }
            if !((rec.proposed_mom[i][k] - pr[k]).abs() <= t) {
                bad.push(format!("p'[{k}] {} vs {}", rec.proposed_mom[i][k], pr[k]));
            }
        }
        let h0 = hamiltonian(rt, &rec.prev[i], &rec.momentum[i]);
        let h1 = hamiltonian(rt, &xr, &pr);
        let dh = h0 - h1;
        if dh.is_finite() {
            let hscale = h0.abs().max(h1.abs()).max(1.0) * scale.max(1.0);
            if !((rec.accept_logp[i] - dh).abs() <= tol.rel * hscale * (l as f64 + 1.0) * 4.0 * amp) {
                bad.push(format!("H - H' {} vs {}", rec.accept_logp[i], dh));
            }
        }
        if !bad.is_empty() {
            ctx.violation(Violation::new(
                "C02:leapfrog",
                format!("row {i}: proposal is not the point reached by exactly {l} velocity-Verlet steps of size {eps} from x={:?}, p={:?} on {}: {}", rec.prev[i], rec.momentum[i], rt.kind, bad.join("; ")),
                case.clone(),
            ));
        }
    }
    accepted
}

// ------------------------------------------------------------------ configuration grid

#[derive(Clone, Debug)]
struct Cfg {
    target: usize,
    d: usize,
    eps: f64,
    l: usize,
    n: usize,
}

fn targets<T: Float + std::fmt::Debug + num_traits::FloatConst>(thorough: bool) -> Vec<(AnyTarget<T>, Vec<usize>)> {
    let f = |x: f64| T::from(x).unwrap();
    let mut v = vec![
        (AnyTarget::Gauss2D(DiffableGaussian2D::new([f(0.0), f(1.0)], [[f(4.0), f(2.0)], [f(2.0), f(3.0)]])), vec![2]),
        (AnyTarget::Rosen2D(Rosenbrock2D { a: f(1.0), b: f(10.0) }), vec![2]),
        (AnyTarget::RosenND, vec![3]),
        (AnyTarget::StudentT { nu: 2.0 }, vec![1, 2, 3, 16]),
        (AnyTarget::Quartic, vec![1, 2, 16]),
        (AnyTarget::GaussND(GaussND::new(3, 0)), vec![3]),
        (AnyTarget::Linear { slope: 2e6 }, vec![1, 2]),
        (AnyTarget::Linear { slope: -1e12 }, vec![1]),
    ];
    if thorough {
        v.push((AnyTarget::Gauss2D(DiffableGaussian2D::new([f(-1.0), f(0.5)], [[f(1.0), f(0.0)], [f(0.0), f(1.0)]])), vec![2]));
        v.push((AnyTarget::Gauss2D(DiffableGaussian2D::new([f(0.0), f(0.0)], [[f(0.25), f(-0.1)], [f(-0.1), f(2.0)]])), vec![2]));
        v.push((AnyTarget::GaussND(GaussND::new(8, 1)), vec![8]));
        v.push((AnyTarget::GaussND(GaussND::new(16, 2)), vec![16]));
    }
    v
}

fn start_rows(n: usize, d: usize) -> Vec<Vec<f64>> {
    (0..n).map(|i| (0..d).map(|k| 0.3 + 0.25 * (((i * 7 + k * 3) % 9) as f64 - 4.0) * 0.5).collect()).collect()
}

/// momentum vectors: full product for n*d <= 3, else default 0.5 with at most `dev` deviating coordinates
fn momentum_vectors(nd: usize, thorough: bool) -> Vec<Vec<f64>> {
    let alpha = [0.5, -2.0, -0.5, 0.0, 2.0];
    let mut out = vec![];
    if nd <= if thorough { 4 } else { 3 } {
        let total = 5usize.pow(nd as u32);
        for idx in 0..total {
            let mut i = idx;
            out.push((0..nd).map(|_| { let v = alpha[i % 5]; i /= 5; v }).collect());
        }
        return out;
    }
    out.push(vec![0.5; nd]);
    let dev = if nd <= 8 { 2 } else { 1 };
    for a in 0..nd {
        for va in 1..5 {
            let mut v = vec![0.5; nd];
            v[a] = alpha[va];
            out.push(v.clone());
            if dev >= 2 {
                for b in a + 1..nd {
                    for vb in 1..5 {
                        let mut w = v.clone();
                        w[b] = alpha[vb];
                        out.push(w);
                    }
                }
            }
        }
    }
    out
}

fn run_backend<T, B>(ctx: &Ctx, name: &str, f32_backend: bool)
where
    T: Float + burn::tensor::ElementConversion + burn::tensor::Element + rand_distr::uniform::SampleUniform + num_traits::FromPrimitive + std::fmt::Debug + num_traits::FloatConst + Send + Sync,
    B: AutodiffBackend,
    rand_distr::StandardNormal: rand::distr::Distribution<T>,
    rand_distr::StandardUniform: rand_distr::Distribution<T>,
{
    let thorough = ctx.tier.thorough();
    let tol = if f32_backend { Tol { rel: 1e-3, ln_rel: 4e-7 } } else { Tol { rel: 1e-11, ln_rel: 1e-15 } };
    let tg = targets::<T>(thorough);
    let epss: Vec<f64> = if thorough { vec![1e-3, 0.1, 0.9, 2.5, 1e3] } else { vec![0.1, 0.9, 2.5] };
    let ls: Vec<usize> = if thorough { vec![0, 1, 2, 3, 8, 64] } else { vec![0, 1, 3, 8] };
    let ns: Vec<usize> = if thorough { vec![1, 2, 3, 32] } else { vec![1, 2, 32] };
    let mut cfgs = vec![];
    for (ti, (_, dims)) in tg.iter().enumerate() {
        for &d in dims {
            for &eps in &epss {
                for &l in &ls {
                    for &n in &ns {
                        // keep the biggest products for the thorough tier
                        if !thorough && (n * d > 64 || (l >= 8 && n * d > 4) || (n == 32 && !(l == 1 && eps == 0.1)) || (d == 16 && l > 1)) {
                            continue;
                        }
                        if l == 64 && n * d > 6 {
                            continue;
                        }
                        if thorough && n == 32 && l > 3 {
                            continue;
                        }
                        cfgs.push(Cfg { target: ti, d, eps, l, n });
                    }
                }
            }
        }
    }
    // negative step sizes: a backward-in-time trajectory, integrated and Metropolis-tested like any other
    for (ti, (_, dims)) in tg.iter().enumerate().take(2) {
        for &eps in &[-0.1, -0.9] {
            for &l in &[1usize, 3] {
                for &n in &[1usize, 2] {
                    cfgs.push(Cfg { target: ti, d: dims[0], eps, l, n });
                }
            }
        }
    }
    let f = |x: f64| T::from(x).unwrap();
    cfgs.par_iter().for_each(|c| {
        let target = tg[c.target].0.clone();
        let rt = ref_of(&target);
        let starts = start_rows(c.n, c.d);
        let moms = momentum_vectors(c.n * c.d, thorough);
        let mk = || HMC::<T, B, AnyTarget<T>>::new(target.clone(), starts.iter().map(|r| r.iter().map(|x| f(*x)).collect()).collect(), f(c.eps), c.l).set_seed(1);
        let step_cap = if thorough { 60 } else { 8 };
        let stride = (moms.len() / step_cap).max(1);
        for (mi, mflat) in moms.iter().enumerate() {
            if mi % stride != 0 {
                continue;
            }
            let m: Vec<Vec<f64>> = (0..c.n).map(|i| mflat[i * c.d..(i + 1) * c.d].to_vec()).collect();
            let case = json!({"backend": name, "target": rt.kind, "d": c.d, "eps": c.eps, "L": c.l, "n_chains": c.n, "momentum": m});
            // pass 1: u = 1/2, learn the implementation's energy difference
            let mut s = mk();
            ctx.evals(1);
            ctx.transitions(1);
            let rec1 = match instrumented_step(&mut s, Some(&m), Some(&vec![0.5; c.n])) {
                Ok(r) => r,
                Err(e) => {
                    ctx.violation(Violation::new("C02:panic", format!("HMC::step panicked: {e}"), case.clone()));
                    continue;
                }
            };
            check_step(ctx, &rt, &rec1, c.eps, c.l, &tol, Some(&vec![0.5; c.n]), &case, f32_backend);
            ctx.state(hash_str(&case.to_string()));
            if c.n <= 2 && c.l > 0 {
                ctx.sample_tagged("one HMC step", || json!({"input": case.clone(), "previous": rec1.prev, "recorded_proposal": rec1.proposed, "recorded_H_minus_Hprime": jfs(&rec1.accept_logp), "recorded_ln_u": jfs(&rec1.ln_u), "after": rec1.after}));
            }
            // pass 2: uniforms at the decision boundary of each row
            let mut u_sets: Vec<Vec<f64>> = vec![vec![1e-30; c.n], vec![if f32_backend { 1.0 - 2f64.powi(-24) } else { 1.0 - 2f64.powi(-53) }; c.n]];
            for shift in [-1i32, 0, 1] {
                let us: Vec<f64> = (0..c.n)
                    .map(|i| {
                        let thr = rec1.accept_logp[i].exp();
                        let thr = if f32_backend { (thr as f32) as f64 } else { thr };
                        let v = match shift {
                            -1 => if f32_backend { f32_down(thr as f32) as f64 } else { f64_down(thr) },
                            1 => if f32_backend { f32_up(thr as f32) as f64 } else { f64_up(thr) },
                            _ => thr,
                        };
                        if v.is_finite() && v > 0.0 && v < 1.0 { v } else { 0.25 }
                    })
                    .collect();
                u_sets.push(us);
            }
            for us in u_sets {
                let mut s = mk();
                let case2 = json!({"backend": name, "target": rt.kind, "d": c.d, "eps": c.eps, "L": c.l, "n_chains": c.n, "momentum": m, "uniform": us});
                ctx.evals(1);
                ctx.transitions(1);
                match instrumented_step(&mut s, Some(&m), Some(&us)) {
                    Ok(r) => {
                        check_step(ctx, &rt, &r, c.eps, c.l, &tol, Some(&us), &case2, f32_backend);
                        ctx.distinct(hash_str(&case2.to_string()));
                    }
                    Err(e) => ctx.violation(Violation::new("C02:panic", format!("HMC::step panicked: {e}"), case2)),
                }
            }
            // (iii) row independence: every row alone gives the same proposal and decision
            if c.n > 1 && mi % (stride * 4) == 0 {
                for i in 0..c.n.min(4) {
                    let mut s1 = HMC::<T, B, AnyTarget<T>>::new(target.clone(), vec![starts[i].iter().map(|x| f(*x)).collect()], f(c.eps), c.l).set_seed(1);
                    ctx.transitions(1);
                    if let Ok(r1) = instrumented_step(&mut s1, Some(&[m[i].clone()]), Some(&[0.5])) {
                        let scale = r1.proposed[0].iter().fold(1.0f64, |a, v| a.max(v.abs()));
                        let amp = amplification(&rt, &starts[i], &m[i], c.eps, c.l);
                        if !(amp < 1e6) {
                            continue;
                        }
                        let t = if f32_backend { 1e-3 } else { 1e-12 } * scale * (c.l as f64 + 1.0) * amp;
                        let same = r1.proposed[0].iter().zip(rec1.proposed[i].iter()).all(|(a, b)| (a - b).abs() <= t || (a.is_nan() && b.is_nan()) || (!a.is_finite() && a == b));
                        let same_dec = (r1.ln_u[0] <= r1.accept_logp[0]) == (rec1.ln_u[i] <= rec1.accept_logp[i]) || (r1.accept_logp[0] - rec1.accept_logp[i]).abs() < 1e-3 * amp.max(1.0) * r1.accept_logp[0].abs().max(1.0);
                        if !same || !same_dec {
                            ctx.violation(Violation::new(
                                "C02:row-leakage",
                                format!("row {i} of a batch of {} behaves differently from the same (x,p,u) run as a single chain: proposal {:?} vs {:?}, H-H' {} vs {}", c.n, rec1.proposed[i], r1.proposed[0], rec1.accept_logp[i], r1.accept_logp[0]),
                                case.clone(),
                            ));
                        }
                    }
                }
            }
            // (iv) reversibility on stable configurations: from (x', -p') the integrator returns to (x, -p)
            if c.eps <= 0.9 && c.l >= 1 && c.l <= 8 && mi % (stride * 2) == 0 {
                let back_start: Vec<Vec<T>> = rec1.proposed.iter().map(|r| r.iter().map(|x| f(*x)).collect()).collect();
                if rec1.proposed.iter().flatten().all(|v| v.is_finite() && v.abs() < 1e3) {
                    let mut sb = HMC::<T, B, AnyTarget<T>>::new(target.clone(), back_start, f(c.eps), c.l).set_seed(1);
                    let negp: Vec<Vec<f64>> = rec1.proposed_mom.iter().map(|r| r.iter().map(|v| -v).collect()).collect();
                    ctx.transitions(1);
                    if let Ok(rb) = instrumented_step(&mut sb, Some(&negp), Some(&vec![0.5; c.n])) {
                        for i in 0..c.n {
                            let scale = rec1.prev[i].iter().chain(rec1.proposed[i].iter()).chain(rec1.momentum[i].iter()).fold(1.0f64, |a, v| a.max(v.abs()));
                            let negp_i: Vec<f64> = rec1.proposed_mom[i].iter().map(|v| -v).collect();
                            let amp = amplification(&rt, &rec1.prev[i], &rec1.momentum[i], c.eps, c.l) * amplification(&rt, &rec1.proposed[i], &negp_i, c.eps, c.l);
                            if !(amp < 1e6) {
                                ctx.outcome("reversibility-skipped(ill-conditioned)", 1);
                                continue;
                            }
                            let t = if f32_backend { 2e-3 } else { 1e-11 } * scale * (c.l as f64 + 1.0) * amp;
                            let okx = rb.proposed[i].iter().zip(rec1.prev[i].iter()).all(|(a, b)| (a - b).abs() <= t);
                            let okp = rb.proposed_mom[i].iter().zip(rec1.momentum[i].iter()).all(|(a, b)| (a + b).abs() <= t);
                            if !okx || !okp {
                                ctx.violation(Violation::new(
                                    "C02:reversibility",
                                    format!("row {i}: integrating again from (x', -p') does not return to (x, -p): got x {:?} (want {:?}), p {:?} (want -{:?})", rb.proposed[i], rec1.prev[i], rb.proposed_mom[i], rec1.momentum[i]),
                                    case.clone(),
                                ));
                            } else {
                                ctx.outcome("reversibility-ok", 1);
                            }
                        }
                    }
                }
            }
        }
        // (vi) histories with the public fields re-assigned between steps: step; positions / step_size / n_leapfrog
        // replaced; step — each step is checked against the reference for the ACTUAL position, step size and L
        if c.l >= 1 && c.eps <= 0.9 && c.n <= 3 {
            for variant in 0..4 {
                let mut s = mk();
                let m: Vec<Vec<f64>> = (0..c.n).map(|i| (0..c.d).map(|k| [0.5, -0.5, 2.0][(i + k) % 3]).collect()).collect();
                let case = json!({"backend": name, "target": rt.kind, "d": c.d, "eps": c.eps, "L": c.l, "n_chains": c.n, "field_mutation_history": variant});
                ctx.transitions(2);
                let hi = if f32_backend { 1.0 - 2f64.powi(-24) } else { 1.0 - 2f64.powi(-53) };
                // first step is rejected for variant 0 (u high) and accepted otherwise
                let u0 = if variant == 0 { hi } else { 1e-30 };
                if instrumented_step(&mut s, Some(&m), Some(&vec![u0; c.n])).is_err() {
                    continue;
                }
                let (mut eps2, mut l2) = (c.eps, c.l);
                match variant {
                    0 => {
                        let np: Vec<Vec<f64>> = starts.iter().map(|r| r.iter().map(|x| -0.6 * x + 0.2).collect()).collect();
                        s.positions = t2::<B>(&np);
                    }
                    1 => {
                        eps2 = c.eps * 0.5;
                        s.step_size = f(eps2);
                    }
                    2 => {
                        l2 = c.l + 1;
                        s.n_leapfrog = l2;
                    }
                    _ => {
                        // a batch with one MORE chain (another shape than the sampler was built with)
                        let mut np: Vec<Vec<f64>> = starts.iter().map(|r| r.iter().map(|x| 0.7 * x - 0.1).collect()).collect();
                        np.push(starts[0].iter().map(|x| -0.3 * x + 0.4).collect());
                        s.positions = t2::<B>(&np);
                    }
                }
                let n2 = if variant == 3 { c.n + 1 } else { c.n };
                let m: Vec<Vec<f64>> = (0..n2).map(|i| (0..c.d).map(|k| [0.5, -0.5, 2.0][(i + k) % 3]).collect()).collect();
                match instrumented_step(&mut s, Some(&m), Some(&vec![0.5; n2])) {
                    Ok(r) => {
                        let before = ctx.n_violations();
                        check_step(ctx, &rt, &r, eps2, l2, &tol, Some(&vec![0.5; n2]), &case, f32_backend);
                        if ctx.n_violations() == before {
                            ctx.outcome("field-mutation histories ok", 1);
                        }
                    }
                    Err(e) => ctx.violation(Violation::new("C02:panic", format!("HMC::step panicked after re-assigning a public field: {e}"), case)),
                }
            }
        }
        // (v) three-step histories with forced accept / reject patterns: every step is checked from the ACTUAL current position
        if c.l >= 1 && c.eps <= 2.5 {
            let hi = if f32_backend { 1.0 - 2f64.powi(-24) } else { 1.0 - 2f64.powi(-53) };
            for pat in 0..8u32 {
                let mut s = mk();
                let mut history = vec![];
                for stepi in 0..3 {
                    let u = if pat >> stepi & 1 == 1 { hi } else { 1e-30 };
                    let m: Vec<Vec<f64>> = (0..c.n).map(|i| (0..c.d).map(|k| [0.5, -1.0, 2.0][(i + k + stepi) % 3]).collect()).collect();
                    let case = json!({"backend": name, "target": rt.kind, "d": c.d, "eps": c.eps, "L": c.l, "n_chains": c.n, "history_pattern": pat, "step": stepi});
                    ctx.transitions(1);
                    match instrumented_step(&mut s, Some(&m), Some(&vec![u; c.n])) {
                        Ok(r) => {
                            let acc = check_step(ctx, &rt, &r, c.eps, c.l, &tol, Some(&vec![u; c.n]), &case, f32_backend);
                            history.push(acc[0]);
                        }
                        Err(e) => {
                            ctx.violation(Violation::new("C02:panic", format!("HMC::step panicked: {e}"), case));
                            break;
                        }
                    }
                }
                ctx.evals(1);
                ctx.outcome(&format!("3-step history {:?}", history.iter().map(|a| if *a { 'A' } else { 'R' }).collect::<String>()), 1);
            }
        }
    });
}

pub fn run(ctx: &Ctx) {
    ctx.rule("E1: the draws of the real HMC::step (momenta per coordinate from {-2,-0.5,0,0.5,2}: full product for n*D <= 3 (4), else <= 2 (1) deviating coordinates; acceptance draws per row from {1e-30, one ulp below / at / above exp(H-H') of the implementation, 1-ulp}) are injected through taps; grid targets {DiffableGaussian2D, Rosenbrock2D, RosenbrockND(3), GaussND(matmul; 3, 8, 16), Student-t(nu=2), quartic} x eps {1e-3,0.1,0.9,2.5,1e3, and -0.1,-0.9 on two targets} x L {0,1,2,3,8,64} x n_chains {1,2,3,32} x backends {NdArray<f32>, NdArray<f64>}; oracles: (i) decision exact on the recorded operands, (ii) proposal/momentum/energy vs f64 velocity-Verlet, (iii) row independence, (iv) reversibility, (v) all {accept,reject}^3 histories. states = distinct (config, momentum) cases; transitions = real step() calls");
    let only = std::env::var("MC_C02_BACKEND").unwrap_or_default();
    if only != "f64" {
        run_backend::<f32, BF32>(ctx, "f32 / NdArray<f32>", true);
    }
    if only != "f32" {
        run_backend::<f64, BF64>(ctx, "f64 / NdArray<f64>", false);
    }
    ctx.assume("draws are injected through the verif taps 'hmc.momentum' / 'hmc.uniform' (use of the injected values is verified through the recorded tensors; failure = exit 2)");
    ctx.assume("numerics tolerance: f64 backend 1e-10*scale*(L+1), f32 backend 2e-5*scale*(L+1); trajectories whose reference magnitude exceeds 1e6 are compared on decision logic only (counted)");
    if ctx.outcome_count("accept") == 0 || ctx.outcome_count("reject") == 0 || ctx.outcome_count("reversibility-ok") == 0 {
        ctx.machinery_error("vacuity guard: both accept and reject (and reversibility) must be observed");
    }
}

pub fn check_case(ctx: &Ctx, _case: &Value) {
    // deterministic and quick: re-run the grid (the recorded case is part of it)
    run(ctx);
}
