//! Input generators shared by C11 / C12 / C13: exhaustive small arrays and fixed structured families.
#![allow(dead_code)]
use crate::refs::{Arr3, Lcg};
use ndarray::Array3;

pub const ALPHABET: [f32; 4] = [-1.0, 0.0, 1.0, 2.0];

pub fn to_nd(a: &Arr3) -> Array3<f32> {
    let (c, n, p) = crate::refs::arr3_dims(a);
    let mut out = Array3::<f32>::zeros((c, n, p));
    for i in 0..c {
        for j in 0..n {
            for k in 0..p {
                out[[i, j, k]] = a[i][j][k];
            }
        }
    }
    out
}

/// Decode index `idx` (base-4 digits) into an array of the given shape over ALPHABET.
pub fn decode(shape: (usize, usize, usize), mut idx: u64) -> Arr3 {
    let (c, n, p) = shape;
    let mut a = vec![vec![vec![0f32; p]; n]; c];
    for i in 0..c {
        for j in 0..n {
            for k in 0..p {
                a[i][j][k] = ALPHABET[(idx & 3) as usize];
                idx >>= 2;
            }
        }
    }
    a
}

pub fn n_arrays(shape: (usize, usize, usize)) -> u64 {
    1u64 << (2 * shape.0 * shape.1 * shape.2)
}

#[derive(Clone, Debug)]
pub struct FamSpec {
    pub kind: &'static str,
    pub chains: usize,
    pub draws: usize,
    pub params: usize,
    pub phi: f64,
    pub loc: f64,
    pub scale: f64,
    pub seed: u64,
}

impl FamSpec {
    pub fn name(&self) -> String {
        format!(
            "{}(c={},n={},p={},phi={},loc={},scale={},seed={})",
            self.kind, self.chains, self.draws, self.params, self.phi, self.loc, self.scale, self.seed
        )
    }
    pub fn to_json(&self) -> serde_json::Value {
        serde_json::json!({"kind": self.kind, "chains": self.chains, "draws": self.draws, "params": self.params,
            "phi": self.phi, "loc": self.loc, "scale": self.scale, "seed": self.seed})
    }
    pub fn from_json(v: &serde_json::Value) -> Option<FamSpec> {
        let kind = match v["kind"].as_str()? {
            "iid" => "iid",
            "ar1" => "ar1",
            "trend" => "trend",
            "bimodal" => "bimodal",
            "switching" => "switching",
            "far" => "far",
            "constparam" => "constparam",
            "anti" => "anti",
            _ => return None,
        };
        Some(FamSpec {
            kind,
            chains: v["chains"].as_u64()? as usize,
            draws: v["draws"].as_u64()? as usize,
            params: v["params"].as_u64()? as usize,
            phi: v["phi"].as_f64()?,
            loc: v["loc"].as_f64()?,
            scale: v["scale"].as_f64()?,
            seed: v["seed"].as_u64()?,
        })
    }

    /// Build the member. Parameter k uses its own stream; for "constparam" the LAST parameter is constant.
    pub fn build(&self) -> Arr3 {
        let (c, n, p) = (self.chains, self.draws, self.params);
        let mut a = vec![vec![vec![0f32; p]; n]; c];
        for k in 0..p {
            for i in 0..c {
                let mut g = Lcg::new(self.seed.wrapping_mul(1000003).wrapping_add((i * 131 + k * 7919) as u64));
                let mut x = g.normal() / (1.0 - self.phi * self.phi).max(1e-6).sqrt();
                for j in 0..n {
                    let e = g.normal();
                    let v = match self.kind {
                        "iid" | "far" | "constparam" => e,
                        "ar1" | "anti" => {
                            x = self.phi * x + e;
                            x
                        }
                        "trend" => e + 4.0 * (j as f64) / (n as f64) * ((i % 2) as f64 * 2.0 - 1.0),
                        "bimodal" => e + if i % 2 == 0 { 3.0 } else { -3.0 },
                        "switching" => {
                            // slow switching between two modes inside each chain
                            if g.unif() < 0.05 {
                                x = -x;
                            }
                            if x == 0.0 {
                                x = 1.0;
                            }
                            e * 0.5 + 3.0 * x.signum()
                        }
                        _ => e,
                    };
                    let v = if self.kind == "far" { v + 100.0 * i as f64 } else { v };
                    let mut out = self.loc + self.scale * v;
                    if self.kind == "constparam" && k == p - 1 {
                        out = 1.5;
                    }
                    a[i][j][k] = out as f32;
                }
            }
        }
        a
    }
}

pub fn family_specs(thorough: bool, for_ess: bool) -> Vec<FamSpec> {
    let chains: Vec<usize> = if thorough { vec![1, 2, 3, 4, 8, 16] } else { vec![1, 2, 4] };
    let draws: Vec<usize> = if thorough {
        vec![4, 5, 7, 50, 99, 100, 101, 199, 200, 201, 202, 203, 400, 1000, 1023, 4999, 5000]
    } else {
        vec![4, 5, 7, 50, 200, 201, 202, 203, 600]
    };
    let params: Vec<usize> = if thorough { vec![1, 2, 8] } else { vec![1, 3] };
    let mut out = vec![];
    let mut seed = 1u64;
    for &c in &chains {
        for &n in &draws {
            for &p in &params {
                // the O(n^2) reference makes the biggest members expensive: bound the product
                let cost = (c * p) as u64 * (n as u64 / 2) * (n as u64 / 2);
                let cap: u64 = if for_ess { if thorough { 120_000_000 } else { 6_000_000 } } else { u64::MAX };
                if cost > cap {
                    continue;
                }
                let mut push = |kind: &'static str, phi: f64, loc: f64, scale: f64| {
                    seed += 1;
                    out.push(FamSpec { kind, chains: c, draws: n, params: p, phi, loc, scale, seed });
                };
                push("iid", 0.0, 0.0, 1.0);
                push("iid", 0.0, 100.0, 0.5);
                push("iid", 0.0, -3.0, 40.0);
                push("iid", 0.0, 0.0, 1e-5);
                push("ar1", 0.5, 0.0, 3e-6);
                push("iid", 0.0, 0.0, 1e6);
                for phi in [0.5, 0.9] {
                    push("ar1", phi, 0.0, 1.0);
                }
                if thorough || n <= 203 {
                    for phi in [-0.9, -0.5, 0.99] {
                        push(if phi < 0.0 { "anti" } else { "ar1" }, phi, 1.0, 2.0);
                    }
                }
                push("trend", 0.0, 0.0, 1.0);
                if c >= 2 {
                    push("bimodal", 0.0, 0.0, 1.0);
                    push("far", 0.0, 0.0, 1.0);
                }
                push("switching", 0.0, 0.0, 1.0);
                if p >= 2 {
                    push("constparam", 0.0, 0.0, 1.0);
                }
            }
        }
    }
    out
}

pub fn exhaustive_shapes(thorough: bool) -> Vec<(usize, usize, usize)> {
    if thorough {
        vec![(1, 4, 1), (1, 5, 1), (1, 6, 1), (2, 4, 1), (1, 4, 2), (2, 5, 1), (1, 8, 1), (3, 4, 1), (1, 6, 2)]
    } else {
        vec![(1, 4, 1), (1, 5, 1), (1, 6, 1), (2, 4, 1), (1, 4, 2)]
    }
}
