//! C01 — one Metropolis-Hastings step obeys the acceptance rule; exact detailed balance on finite spaces.
use crate::common::*;
use mini_mcmc::core::MarkovChain;
use mini_mcmc::distributions::{Proposal, Target};
use mini_mcmc::metropolis_hastings::MHMarkovChain;
use num_traits::Float;
use rand::rngs::SmallRng;
use rand::{Rng, SeedableRng};
use rayon::prelude::*;
use serde_json::{json, Value};

// ---------------------------------------------------------------- harness target / proposal over a finite table

pub trait StateVal: Clone + PartialEq + num_traits::Zero + Send + Sync + std::fmt::Debug + 'static {
    fn from_index(i: usize) -> Self;
    fn to_index(&self) -> usize;
    fn bits(&self) -> u64;
    fn name() -> &'static str;
    /// alternative encodings of state 0 whose bit pattern must survive a rejection
    fn odd_zero_states() -> Vec<Self>;
}
impl StateVal for i32 {
    fn from_index(i: usize) -> Self {
        i as i32
    }
    fn to_index(&self) -> usize {
        (*self).max(0) as usize
    }
    fn bits(&self) -> u64 {
        *self as u32 as u64
    }
    fn name() -> &'static str {
        "i32"
    }
    fn odd_zero_states() -> Vec<Self> {
        vec![0, -5]
    }
}
impl StateVal for f32 {
    fn from_index(i: usize) -> Self {
        i as f32
    }
    fn to_index(&self) -> usize {
        if *self >= 1.0 { *self as usize } else { 0 }
    }
    fn bits(&self) -> u64 {
        self.to_bits() as u64
    }
    fn name() -> &'static str {
        "f32"
    }
    fn odd_zero_states() -> Vec<Self> {
        vec![0.0, -0.0, f32::from_bits(0x7fc0_1234), f32::from_bits(1), -0.75]
    }
}
impl StateVal for f64 {
    fn from_index(i: usize) -> Self {
        i as f64
    }
    fn to_index(&self) -> usize {
        if *self >= 1.0 { *self as usize } else { 0 }
    }
    fn bits(&self) -> u64 {
        self.to_bits()
    }
    fn name() -> &'static str {
        "f64"
    }
    fn odd_zero_states() -> Vec<Self> {
        vec![0.0, -0.0, f64::from_bits(0x7ff8_0000_dead_beef), f64::from_bits(1), -0.75]
    }
}

#[derive(Clone)]
struct TableTarget<F> {
    lp: Vec<F>,
}
impl<S: StateVal, F: Float> Target<S, F> for TableTarget<F> {
    fn unnorm_logp(&self, position: &[S]) -> F {
        self.lp[position[0].to_index().min(self.lp.len() - 1)]
    }
}
#[derive(Clone)]
struct TableProposal<F> {
    next: usize,
    lq: Vec<Vec<F>>,
}
impl<S: StateVal, F: Float> Proposal<S, F> for TableProposal<F> {
    fn sample(&mut self, _current: &[S]) -> Vec<S> {
        vec![S::from_index(self.next)]
    }
    fn logp(&self, from: &[S], to: &[S]) -> F {
        let k = self.lq.len() - 1;
        self.lq[from[0].to_index().min(k)][to[0].to_index().min(k)]
    }
    fn set_seed(self, _seed: u64) -> Self {
        self
    }
}

pub trait UFloat: Float + Send + Sync + std::fmt::Debug + 'static
where
    rand_distr::StandardUniform: rand_distr::Distribution<Self>,
{
    const GRID: u64; // number of variates
    fn name() -> &'static str;
    fn variate(k: u64) -> Self; // k / GRID
    fn rng_for(k: u64) -> SmallRng {
        Self::rng_pat(k, 1)
    }
    /// generator whose first variate is k/GRID and whose DISCARDED word bits follow pattern `pat` (common::discarded_bits)
    fn rng_pat(k: u64, pat: u8) -> SmallRng;
    fn to64(self) -> f64;
}
impl UFloat for f32 {
    const GRID: u64 = 1 << 24;
    fn name() -> &'static str {
        "f32"
    }
    fn variate(k: u64) -> f32 {
        k as f32 / 16777216.0
    }
    fn rng_pat(k: u64, pat: u8) -> SmallRng {
        crate::common::rng_first_f32_pat(k as u32, pat)
    }
    fn to64(self) -> f64 {
        self as f64
    }
}
impl UFloat for f64 {
    const GRID: u64 = 1 << 53;
    fn name() -> &'static str {
        "f64"
    }
    fn variate(k: u64) -> f64 {
        k as f64 / 9007199254740992.0
    }
    fn rng_pat(k: u64, pat: u8) -> SmallRng {
        crate::common::rng_first_f64_pat(k, pat)
    }
    fn to64(self) -> f64 {
        self as f64
    }
}

/// The statement's rule, evaluated in the chain's float type.
fn rule_accepts<F: Float>(lp_x: F, lp_y: F, q_fwd: F, q_back: F, u: F) -> bool {
    let r = (lp_y + q_back) - (lp_x + q_fwd);
    u.ln() < r
}

/// Smallest grid index k such that ln(variate(k)) >= r (i.e. the rule rejects), by bisection on the
/// monotone function ln; GRID if none.
fn first_reject_index<F: UFloat>(r: F) -> u64
where
    rand_distr::StandardUniform: rand_distr::Distribution<F>,
{
    if r.is_nan() {
        return 0;
    }
    let (mut lo, mut hi) = (0u64, F::GRID); // invariant: all k < lo accept, all k >= hi reject
    while lo < hi {
        let mid = lo + (hi - lo) / 2;
        if F::variate(mid).ln() < r {
            lo = mid + 1;
        } else {
            hi = mid;
        }
    }
    lo
}

struct StepCfg<F> {
    lp_x: F,
    lp_y: F,
    q_fwd: F,
    q_back: F,
}

/// Execute ONE real step with the acceptance draw forced to variate k; returns (accepted?, state bits, premise ok).
fn one_step<S: StateVal, F: UFloat>(cfg: &StepCfg<F>, x: &S, k: u64) -> Result<(bool, u64, bool), String>
where
    rand_distr::StandardUniform: rand_distr::Distribution<F>,
{
    one_step_pat::<S, F>(cfg, x, k, 1)
}
fn one_step_pat<S: StateVal, F: UFloat>(cfg: &StepCfg<F>, x: &S, k: u64, pat: u8) -> Result<(bool, u64, bool), String>
where
    rand_distr::StandardUniform: rand_distr::Distribution<F>,
{
    let target = TableTarget { lp: vec![cfg.lp_x, cfg.lp_y] };
    let prop = TableProposal { next: 1, lq: vec![vec![F::zero(), cfg.q_fwd], vec![cfg.q_back, F::zero()]] };
    let mut chain = MHMarkovChain::<S, F, _, _>::new(target, prop, vec![x.clone()]);
    chain.rng = F::rng_pat(k, pat);
    let mut reference = F::rng_pat(k, pat);
    let st = catch(|| chain.step().clone())?;
    let _: F = reference.random();
    let premise = chain.rng == reference;
    let y = S::from_index(1);
    let accepted = st[0].bits() == y.bits();
    Ok((accepted, st[0].bits(), premise))
}

fn fl<F: Float>(x: f64) -> F {
    F::from(x).unwrap()
}

fn alphabet_p<F: Float>() -> Vec<F> {
    vec![fl(0.0), fl(2f64.ln()), fl(3f64.ln()), fl(-745.0), F::neg_infinity(), F::infinity(), F::nan()]
}
fn alphabet_q<F: Float>() -> Vec<F> {
    vec![fl(0.0), fl(0.5f64.ln()), fl(0.25f64.ln()), F::neg_infinity(), F::nan()]
}

fn step_level<S: StateVal, F: UFloat>(ctx: &Ctx)
where
    rand_distr::StandardUniform: rand_distr::Distribution<F>,
{
    let ap = alphabet_p::<F>();
    let aq = alphabet_q::<F>();
    let mut combos = vec![];
    for a in 0..ap.len() {
        for b in 0..ap.len() {
            for c in 0..aq.len() {
                for d in 0..aq.len() {
                    combos.push((a, b, c, d));
                }
            }
        }
    }
    combos.par_iter().for_each(|&(a, b, c, d)| {
        let cfg = StepCfg { lp_x: ap[a], lp_y: ap[b], q_fwd: aq[c], q_back: aq[d] };
        let r = (cfg.lp_y + cfg.q_back) - (cfg.lp_x + cfg.q_fwd);
        let t = first_reject_index::<F>(r);
        let g = F::GRID;
        let mut ks: Vec<u64> = vec![0, 1, 2, g - 1, g - 2, g / 2];
        for dlt in 0..3u64 {
            ks.push(t.saturating_sub(dlt + 1));
            ks.push((t + dlt).min(g - 1));
        }
        ks.sort();
        ks.dedup();
        for x in S::odd_zero_states() {
            for &(k, pat) in ks.iter().flat_map(|k| (0..4u8).map(move |p| (k, p))).collect::<Vec<_>>().iter() {
                let k = *k;
                let u = F::variate(k);
                let case = json!({"level": "step", "state_ty": S::name(), "float_ty": F::name(), "lp_x": jf(cfg.lp_x.to64()), "lp_y": jf(cfg.lp_y.to64()), "q_fwd": jf(cfg.q_fwd.to64()), "q_back": jf(cfg.q_back.to64()), "k": k.to_string(), "discarded_bits_pattern": pat, "x_bits": format!("{:x}", x.bits())});
                ctx.evals(1);
                ctx.transitions(1);
                match one_step_pat::<S, F>(&cfg, &x, k, pat) {
                    Err(m) => ctx.violation(Violation::new("C01:panic", format!("step panicked: {m}"), case)),
                    Ok((acc, bits, premise)) => {
                        if !premise {
                            ctx.machinery_error("cannot inject the acceptance draw: the step did not consume exactly the next output of the public `rng`");
                            return;
                        }
                        let want = rule_accepts(cfg.lp_x, cfg.lp_y, cfg.q_fwd, cfg.q_back, u);
                        let class = if r.is_nan() { "ratio NaN" } else if r == F::infinity() { "ratio +inf" } else if r == F::neg_infinity() { "ratio -inf" } else if r > F::zero() { "ratio > 0" } else if r == F::zero() { "ratio = 0" } else { "ratio < 0" };
                        ctx.outcome(&format!("{} / {}", class, if acc { "accepted" } else { "rejected" }), 1);
                        if k > 2 && k < g - 2 && r.is_finite() {
                            ctx.sample_tagged("step at the accept/reject threshold", || json!({"input": case.clone(), "u": u.to64(), "log_ratio": r.to64(), "step_moved_to_y": acc, "rule_says_accept": want}));
                        }
                        if acc != want {
                            ctx.violation(Violation::new(
                                format!("C01:rule({})", class),
                                format!("u = {:e} (variate {k}), log ratio {:?}: rule says {}, step {} ({} state, {} floats; lp_x {:?}, lp_y {:?}, q(y|x) {:?}, q(x|y) {:?})", u.to64(), r, if want { "accept" } else { "reject" }, if acc { "moved to y" } else { "stayed" }, S::name(), F::name(), cfg.lp_x, cfg.lp_y, cfg.q_fwd, cfg.q_back),
                                case,
                            ));
                        } else if !acc && bits != x.bits() {
                            ctx.violation(Violation::new("C01:reject-not-bit-identical", format!("after a rejection the state {bits:x} is not bit-identical to x = {:x}", x.bits()), case));
                        }
                    }
                }
            }
        }
        ctx.state(hash_of(&(S::name(), F::name(), a, b, c, d)));
        ctx.distinct(hash_of(&(S::name(), F::name(), a, b, c, d)));
    });
}

// ---------------------------------------------------------------- pairs (x, y) that compare equal but are different states
/// Target / proposal that tell states apart by their BIT PATTERN (a sign-sensitive density, a reflection proposal):
/// the statement quantifies over all pairs (x, y), and +0.0 / -0.0 are two states that `==` cannot distinguish.
#[derive(Clone)]
struct BitsTarget<F> {
    y_bits: u64,
    lp_x: F,
    lp_y: F,
}
impl<S: StateVal, F: Float> Target<S, F> for BitsTarget<F> {
    fn unnorm_logp(&self, position: &[S]) -> F {
        if position[0].bits() == self.y_bits { self.lp_y } else { self.lp_x }
    }
}
#[derive(Clone)]
struct BitsProposal<S, F> {
    y: S,
    q_fwd: F,
    q_back: F,
}
impl<S: StateVal, F: Float> Proposal<S, F> for BitsProposal<S, F> {
    fn sample(&mut self, _current: &[S]) -> Vec<S> {
        vec![self.y.clone()]
    }
    fn logp(&self, _from: &[S], to: &[S]) -> F {
        if to[0].bits() == self.y.bits() { self.q_fwd } else { self.q_back }
    }
    fn set_seed(self, _seed: u64) -> Self {
        self
    }
}

fn one_step_pair<S: StateVal, F: UFloat>(cfg: &StepCfg<F>, x: &S, y: &S, k: u64) -> Result<(u64, bool), String>
where
    rand_distr::StandardUniform: rand_distr::Distribution<F>,
{
    let target = BitsTarget { y_bits: y.bits(), lp_x: cfg.lp_x, lp_y: cfg.lp_y };
    let prop = BitsProposal { y: y.clone(), q_fwd: cfg.q_fwd, q_back: cfg.q_back };
    let mut chain = MHMarkovChain::<S, F, _, _>::new(target, prop, vec![x.clone()]);
    chain.rng = F::rng_pat(k, 1);
    let mut reference = F::rng_pat(k, 1);
    let st = catch(|| chain.step().clone())?;
    let _: F = reference.random();
    Ok((st[0].bits(), chain.rng == reference))
}

fn check_pair<S: StateVal, F: UFloat>(ctx: &Ctx, cfg: &StepCfg<F>, x: &S, y: &S, k: u64, case: &Value)
where
    rand_distr::StandardUniform: rand_distr::Distribution<F>,
{
    ctx.evals(1);
    ctx.transitions(1);
    match one_step_pair::<S, F>(cfg, x, y, k) {
        Err(m) => ctx.violation(Violation::new("C01:panic", format!("step panicked: {m}"), case.clone())),
        Ok((bits, premise)) => {
            if !premise {
                ctx.machinery_error("cannot inject the acceptance draw (equal-valued pair): the step did not consume exactly the next output of the public `rng`");
                return;
            }
            let want = rule_accepts(cfg.lp_x, cfg.lp_y, cfg.q_fwd, cfg.q_back, F::variate(k));
            let want_bits = if want { y.bits() } else { x.bits() };
            ctx.outcome(if x.bits() == y.bits() { "equal-valued pair: y is x" } else if want { "equal-valued pair: y differs in bits / rule accepts" } else { "equal-valued pair: y differs in bits / rule rejects" }, 1);
            if bits != want_bits {
                ctx.violation(Violation::new(
                    "C01:rule(equal-valued pair)",
                    format!("x = {:x}, candidate y = {:x} (x == y under PartialEq), variate {k}: rule says {}, state after the step is {bits:x}, expected {want_bits:x}", x.bits(), y.bits(), if want { "accept" } else { "reject" }),
                    case.clone(),
                ));
            }
        }
    }
}

fn equal_pairs_level<S: StateVal, F: UFloat>(ctx: &Ctx)
where
    rand_distr::StandardUniform: rand_distr::Distribution<F>,
{
    let ap = alphabet_p::<F>();
    let aq = alphabet_q::<F>();
    let zs = S::odd_zero_states();
    let mut pairs = vec![];
    for x in zs.iter() {
        for y in zs.iter() {
            if x == y {
                pairs.push((x.clone(), y.clone()));
            }
        }
    }
    let mut combos = vec![];
    for a in 0..ap.len() {
        for b in 0..ap.len() {
            for c in 0..aq.len() {
                for d in 0..aq.len() {
                    combos.push((a, b, c, d));
                }
            }
        }
    }
    combos.par_iter().for_each(|&(a, b, c, d)| {
        let cfg = StepCfg { lp_x: ap[a], lp_y: ap[b], q_fwd: aq[c], q_back: aq[d] };
        let r = (cfg.lp_y + cfg.q_back) - (cfg.lp_x + cfg.q_fwd);
        let t = first_reject_index::<F>(r);
        let g = F::GRID;
        let mut ks: Vec<u64> = vec![0, 1, g - 1, g / 2, t.saturating_sub(1), t.min(g - 1)];
        ks.sort();
        ks.dedup();
        for (x, y) in pairs.iter() {
            for &k in ks.iter() {
                let case = json!({"level": "equal-pair", "state_ty": S::name(), "float_ty": F::name(), "lp_x": jf(cfg.lp_x.to64()), "lp_y": jf(cfg.lp_y.to64()), "q_fwd": jf(cfg.q_fwd.to64()), "q_back": jf(cfg.q_back.to64()), "k": k.to_string(), "x_bits": format!("{:x}", x.bits()), "y_bits": format!("{:x}", y.bits())});
                check_pair::<S, F>(ctx, &cfg, x, y, k, &case);
            }
        }
        ctx.state(hash_of(&("equal-pair", S::name(), F::name(), a, b, c, d)));
    });
}

/// Count, over ALL 2^24 f32 variates, how many make the real step accept; also check the rule on each.
fn sweep_f32<S: StateVal>(ctx: &Ctx, cfg: &StepCfg<f32>, label: &str) -> Option<u64> {
    let x = S::from_index(0);
    let r = (cfg.lp_y + cfg.q_back) - (cfg.lp_x + cfg.q_fwd);
    let chunks: Vec<u64> = (0..64).collect();
    let per = (1u64 << 24) / 64;
    let results: Vec<Result<(u64, Option<u64>), String>> = chunks
        .par_iter()
        .map(|c| {
            let mut acc = 0u64;
            let mut bad = None;
            for k in c * per..(c + 1) * per {
                let (a, bits, premise) = one_step::<S, f32>(cfg, &x, k)?;
                if !premise {
                    return Err("premise".into());
                }
                let want = rule_accepts(cfg.lp_x, cfg.lp_y, cfg.q_fwd, cfg.q_back, f32::variate(k));
                if a != want || (!a && bits != x.bits()) {
                    bad.get_or_insert(k);
                }
                if a {
                    acc += 1;
                }
            }
            Ok((acc, bad))
        })
        .collect();
    ctx.evals(1);
    ctx.transitions(1 << 24);
    ctx.outcome("full-2^24-sweeps", 1);
    let mut total = 0;
    for res in results {
        match res {
            Err(m) if m == "premise" => {
                ctx.machinery_error("cannot inject the acceptance draw (sweep)");
                return None;
            }
            Err(m) => {
                ctx.violation(Violation::new("C01:panic", format!("step panicked in sweep {label}: {m}"), json!({"level": "sweep", "label": label})));
                return None;
            }
            Ok((a, bad)) => {
                total += a;
                if let Some(k) = bad {
                    ctx.violation(Violation::new(
                        "C01:rule(sweep)",
                        format!("sweep {label} ({} states): variate {k} (u = {:e}) decided against the rule ln u < {r:?}", S::name(), f32::variate(k)),
                        json!({"level": "step", "state_ty": S::name(), "float_ty": "f32", "lp_x": jf(cfg.lp_x as f64), "lp_y": jf(cfg.lp_y as f64), "q_fwd": jf(cfg.q_fwd as f64), "q_back": jf(cfg.q_back as f64), "k": k.to_string(), "x_bits": format!("{:x}", x.bits())}),
                    ));
                    return None;
                }
            }
        }
    }
    ctx.distinct(hash_str(&format!("sweep-{label}-{}", S::name())));
    Some(total)
}

fn sweeps(ctx: &Ctx) {
    let l = |x: f64| x.ln() as f32;
    let classes: Vec<(&str, StepCfg<f32>)> = vec![
        ("r<0 (pi ratio 1/2, symmetric)", StepCfg { lp_x: l(2.0), lp_y: l(1.0), q_fwd: l(0.5), q_back: l(0.5) }),
        ("r<0 via Hastings terms", StepCfg { lp_x: l(1.0), lp_y: l(1.0), q_fwd: l(0.5), q_back: l(0.25) }),
        ("r=0", StepCfg { lp_x: l(3.0), lp_y: l(3.0), q_fwd: l(0.5), q_back: l(0.5) }),
        ("r>0", StepCfg { lp_x: l(1.0), lp_y: l(3.0), q_fwd: 0.0, q_back: 0.0 }),
        ("r=-inf (zero-probability move)", StepCfg { lp_x: l(1.0), lp_y: f32::NEG_INFINITY, q_fwd: 0.0, q_back: 0.0 }),
        ("r=+inf", StepCfg { lp_x: f32::NEG_INFINITY, lp_y: l(1.0), q_fwd: 0.0, q_back: 0.0 }),
        ("r=NaN (inf-inf)", StepCfg { lp_x: f32::INFINITY, lp_y: f32::INFINITY, q_fwd: 0.0, q_back: 0.0 }),
        ("r tiny negative (-745 underflow)", StepCfg { lp_x: 0.0, lp_y: -745.0, q_fwd: 0.0, q_back: 0.0 }),
        ("r = -1e-7", StepCfg { lp_x: 1e-7, lp_y: 0.0, q_fwd: 0.0, q_back: 0.0 }),
    ];
    for (label, cfg) in classes.iter() {
        sweep_f32::<i32>(ctx, cfg, label);
        if ctx.tier.thorough() {
            sweep_f32::<f32>(ctx, cfg, label);
            sweep_f32::<f64>(ctx, cfg, label);
        }
    }
}

/// Exact kernel on a finite space: A(x,y) = (#accepting f32 variates)/2^24 for every proposable pair.
fn kernels(ctx: &Ctx) {
    // (K, weights, proposal matrix q[x][y])
    let mut specs: Vec<(Vec<f64>, Vec<Vec<f64>>, &str)> = vec![];
    let props2: Vec<(Vec<Vec<f64>>, &str)> = vec![
        (vec![vec![0.5, 0.5], vec![0.5, 0.5]], "symmetric"),
        (vec![vec![0.25, 0.75], vec![0.5, 0.5]], "asymmetric"),
        (vec![vec![0.0, 1.0], vec![1.0, 0.0]], "flip"),
        (vec![vec![0.5, 0.5], vec![0.0, 1.0]], "one-directional"),
    ];
    for w in [vec![1.0, 2.0], vec![3.0, 1.0], vec![1.0, 0.0], vec![2.0, 2.0]] {
        for (q, n) in props2.iter().take(if ctx.tier.thorough() { 4 } else { 3 }) {
            specs.push((w.clone(), q.clone(), n));
        }
    }
    if ctx.tier.thorough() {
        let q3s: Vec<(Vec<Vec<f64>>, &str)> = vec![
            (vec![vec![0.0, 0.5, 0.5], vec![0.5, 0.0, 0.5], vec![0.5, 0.5, 0.0]], "symmetric-3"),
            (vec![vec![0.5, 0.25, 0.25], vec![0.75, 0.0, 0.25], vec![0.25, 0.25, 0.5]], "asymmetric-3"),
            (vec![vec![0.0, 1.0, 0.0], vec![0.0, 0.0, 1.0], vec![1.0, 0.0, 0.0]], "cycle-3 (one-directional)"),
        ];
        for w in [vec![1.0, 2.0, 3.0], vec![1.0, 0.0, 2.0], vec![3.0, 3.0, 1.0]] {
            for (q, n) in q3s.iter() {
                specs.push((w.clone(), q.clone(), n));
            }
        }
        specs.push((vec![1.0, 2.0, 3.0, 2.0], vec![vec![0.25; 4]; 4], "uniform-4"));
        specs.push((vec![1.0, 0.0, 3.0, 2.0], vec![vec![0.0, 0.5, 0.25, 0.25], vec![0.5, 0.0, 0.25, 0.25], vec![0.25, 0.25, 0.0, 0.5], vec![0.125, 0.125, 0.75, 0.0]], "asymmetric-4"));
    }
    ctx.extra("finite_kernels", json!(specs.len()));
    for (w, q, name) in specs {
        let k = w.len();
        let case = json!({"level": "kernel", "weights": w, "q": q, "proposal": name});
        let lp: Vec<f32> = w.iter().map(|x| (*x as f32).ln()).collect();
        let lq: Vec<Vec<f32>> = q.iter().map(|r| r.iter().map(|x| (*x as f32).ln()).collect()).collect();
        let mut a = vec![vec![0.0f64; k]; k];
        let mut failed = false;
        for x in 0..k {
            if w[x] == 0.0 {
                continue; // never a start state of positive probability
            }
            for y in 0..k {
                if x == y || q[x][y] == 0.0 {
                    continue;
                }
                let cfg = StepCfg { lp_x: lp[x], lp_y: lp[y], q_fwd: lq[x][y], q_back: lq[y][x] };
                match sweep_f32::<i32>(ctx, &cfg, &format!("kernel {name} {x}->{y}")) {
                    Some(cnt) => a[x][y] = cnt as f64 / 16777216.0,
                    None => failed = true,
                }
                ctx.state(hash_of(&(name, x, y, hash_f64s("w", &w))));
            }
        }
        if failed {
            continue;
        }
        let tot: f64 = w.iter().sum();
        let pi: Vec<f64> = w.iter().map(|x| x / tot).collect();
        // detailed balance with the IMPLEMENTED acceptance probabilities
        for x in 0..k {
            for y in 0..k {
                if x == y || w[x] == 0.0 {
                    continue;
                }
                let lhs = pi[x] * q[x][y] * a[x][y];
                let rhs = if w[y] == 0.0 { 0.0 } else { pi[y] * q[y][x] * a[y][x] };
                let tol = 4e-7 * lhs.max(rhs) + 3.0 / 16777216.0;
                if (lhs - rhs).abs() > tol {
                    ctx.violation(Violation::new(
                        "C01:detailed-balance",
                        format!("kernel '{name}' weights {w:?}: pi(x) q(y|x) A(x,y) = {lhs} but pi(y) q(x|y) A(y,x) = {rhs} for x={x}, y={y} (implemented acceptance probabilities {} and {})", a[x][y], a[y][x]),
                        case.clone(),
                    ));
                }
            }
        }
        // stationarity pi P = pi
        for y in 0..k {
            let mut s = 0.0;
            for x in 0..k {
                if w[x] == 0.0 {
                    continue;
                }
                let stay: f64 = 1.0 - (0..k).filter(|z| *z != x).map(|z| q[x][z] * a[x][z]).sum::<f64>();
                s += pi[x] * if x == y { stay } else { q[x][y] * a[x][y] };
            }
            if (s - pi[y]).abs() > 1e-6 {
                ctx.violation(Violation::new("C01:stationarity", format!("kernel '{name}' weights {w:?}: (pi P)[{y}] = {s}, pi[{y}] = {}", pi[y]), case.clone()));
            }
        }
        ctx.sample_tagged("finite kernel", || json!({"weights": w, "q": q, "proposal": name, "implemented_acceptance_probabilities(#accepting variates / 2^24)": a}));
        ctx.outcome("kernels-checked", 1);
    }
}

/// E3 history exploration on ONE chain: operations {step with u low / at the threshold / high, relocate the
/// public current_state, replace the public target}; after every step the rule is checked with the log-density of
/// the ACTUAL current state under the ACTUAL target (a stale cache of either would show here).
fn histories(ctx: &Ctx) {
    let l = |x: f64| x.ln() as f32;
    let tables: Vec<Vec<f32>> = vec![vec![l(1.0), l(2.0), l(4.0)], vec![l(5.0), l(1.0), l(1.0)], vec![l(1.0), f32::NEG_INFINITY, l(3.0)]];
    let lq: Vec<Vec<f32>> = vec![vec![l(0.5), l(0.25), l(0.25)], vec![l(0.5), l(0.25), l(0.25)], vec![l(0.25), l(0.5), l(0.25)]];
    #[derive(Clone, Copy, Debug)]
    enum Op {
        Step(usize, u8), // candidate, u class (0 low, 1 just accept, 2 just reject, 3 high)
        SetState(usize),
        SetTarget(usize),
    }
    let mut alphabet = vec![];
    for y in 0..3 {
        for c in 0..4u8 {
            alphabet.push(Op::Step(y, c));
        }
    }
    for s in 0..3 {
        alphabet.push(Op::SetState(s));
    }
    for t in 0..3 {
        alphabet.push(Op::SetTarget(t));
    }
    let depth = ctx.tier.pick(3usize, 4);
    let total = alphabet.len().pow(depth as u32);
    (0..total).into_par_iter().for_each(|idx| {
        let mut i = idx;
        let ops: Vec<Op> = (0..depth).map(|_| { let o = alphabet[i % alphabet.len()]; i /= alphabet.len(); o }).collect();
        // skip histories without a step after a mutation or a step (nothing new to observe): keep all, they are cheap
        let mut chain = MHMarkovChain::<i32, f32, _, _>::new(TableTarget { lp: tables[0].clone() }, TableProposal { next: 0, lq: lq.clone() }, vec![0i32]);
        let mut cur_table = 0usize;
        let case = json!({"level": "history", "ops": format!("{ops:?}")});
        for (n, op) in ops.iter().enumerate() {
            match *op {
                Op::SetState(s) => chain.current_state = vec![s as i32],
                Op::SetTarget(t) => {
                    chain.target = TableTarget { lp: tables[t].clone() };
                    cur_table = t;
                }
                Op::Step(y, class) => {
                    let x = chain.current_state[0] as usize;
                    let (lp_x, lp_y, qf, qb) = (tables[cur_table][x], tables[cur_table][y], lq[x][y], lq[y][x]);
                    let r = (lp_y + qb) - (lp_x + qf);
                    let t = first_reject_index::<f32>(r);
                    let g = <f32 as UFloat>::GRID;
                    let k = match class { 0 => 0, 1 => t.saturating_sub(1), 2 => t.min(g - 1), _ => g - 1 };
                    chain.proposal.next = y;
                    chain.rng = <f32 as UFloat>::rng_for(k);
                    ctx.transitions(1);
                    let st = match catch(|| chain.step().clone()) {
                        Ok(s) => s,
                        Err(m) => {
                            ctx.violation(Violation::new("C01:panic", format!("step panicked in history {ops:?}: {m}"), case.clone()));
                            return;
                        }
                    };
                    let want = rule_accepts(lp_x, lp_y, qf, qb, <f32 as UFloat>::variate(k));
                    let expect = if want { y } else { x };
                    if st[0] as usize != expect {
                        ctx.violation(Violation::new(
                            "C01:rule(after-history)",
                            format!("operation {n} of history {ops:?}: from x={x} (log p {lp_x}) to y={y} (log p {lp_y}) with u variate {k}: rule says {} but the chain is at {}", if want { "move" } else { "stay" }, st[0]),
                            case.clone(),
                        ));
                        return;
                    }
                }
            }
        }
        ctx.evals(1);
        ctx.state(hash_of(&idx));
    });
    ctx.outcome("histories-explored", total as u64);
}

/// Candidates whose length differs from the current state's (birth / death moves): after an accepted
/// step the chain must be AT y (same length, same bits), after a rejected one at x.
fn varlen(ctx: &Ctx) {
    #[derive(Clone)]
    struct LenTarget;
    impl Target<f64, f64> for LenTarget {
        fn unnorm_logp(&self, p: &[f64]) -> f64 {
            -(p.len() as f64) * 0.1 - p.iter().map(|v| v * v).sum::<f64>() * 0.01
        }
    }
    #[derive(Clone)]
    struct Fixed {
        next: Vec<f64>,
    }
    impl Proposal<f64, f64> for Fixed {
        fn sample(&mut self, _c: &[f64]) -> Vec<f64> {
            self.next.clone()
        }
        fn logp(&self, _f: &[f64], _t: &[f64]) -> f64 {
            0.0
        }
        fn set_seed(self, _s: u64) -> Self {
            self
        }
    }
    let xs: Vec<Vec<f64>> = vec![vec![1.0, 2.0], vec![0.5], vec![1.0, 2.0, 3.0, 4.0]];
    let ys: Vec<Vec<f64>> = vec![vec![1.0, 2.0, 7.5], vec![2.0], vec![9.0, 8.0], vec![], vec![1.0, 2.0, 3.0, 4.0, 5.0, 6.0]];
    for x in xs.iter() {
        for y in ys.iter() {
            for k in [0u64, (1 << 53) - 1] {
                let case = json!({"level": "varlen", "x": x, "y": y, "k": k.to_string()});
                ctx.evals(1);
                ctx.transitions(1);
                let mut chain = MHMarkovChain::<f64, f64, _, _>::new(LenTarget, Fixed { next: y.clone() }, x.clone());
                chain.rng = rng_first_f64(k);
                let r = LenTarget.unnorm_logp(y) - LenTarget.unnorm_logp(x);
                let want = f64::variate(k).ln() < r;
                match catch(|| chain.step().clone()) {
                    Err(m) => ctx.violation(Violation::new("C01:panic", format!("step panicked for a candidate of length {}: {m}", y.len()), case)),
                    Ok(st) => {
                        let expect = if want { y } else { x };
                        if st.len() != expect.len() || st.iter().zip(expect.iter()).any(|(a, b)| a.to_bits() != b.to_bits()) {
                            ctx.violation(Violation::new(
                                "C01:state-after-step(variable length)",
                                format!("x = {x:?}, candidate y = {y:?}, rule says {}: the chain is at {st:?}", if want { "accept" } else { "reject" }),
                                case,
                            ));
                        } else {
                            ctx.outcome(if want { "variable-length candidate accepted" } else { "variable-length candidate rejected" }, 1);
                        }
                    }
                }
            }
        }
    }
}

pub fn run(ctx: &Ctx) {
    // machinery self-check: crafted generators really yield the requested variates
    for k in [0u64, 1, 12345, (1 << 24) - 1] {
        let v: f32 = rng_first_f32(k as u32).random();
        if v != f32::variate(k) {
            ctx.machinery_error(format!("crafted SmallRng does not yield f32 variate {k}: got {v}"));
            return;
        }
    }
    for k in [0u64, 1, 987654321, (1 << 53) - 1] {
        let v: f64 = rng_first_f64(k).random();
        if v != f64::variate(k) {
            ctx.machinery_error(format!("crafted SmallRng does not yield f64 variate {k}: got {v}"));
            return;
        }
    }
    let _ = SmallRng::seed_from_u64(0);
    ctx.rule("step level: (log p(x), log p(y), log q(y|x), log q(x|y)) over {ln1,ln2,ln3,-745,-inf,+inf,NaN}^2 x {0,ln1/2,ln1/4,-inf,NaN}^2 (1225 combinations) x state types {i32,f32,f64} (incl. -0.0 / NaN-payload / subnormal encodings of x) x float types {f32,f64}, acceptance draw injected through the public rng at {0, 1, 2 grid units, the exact accept/reject threshold and 3 neighbours either side, 1-ulp, 1/2} x 4 patterns of the generator word's DISCARDED bits (zeros, ones, rounding tie, just below the tie; full sweeps use all ones); equal-valued pairs: the same 1225 combinations with a bit-pattern-sensitive target and proposal on every pair (x, y) of state encodings with x == y under PartialEq (x itself; +0.0 / -0.0 both ways), draws at {0, 1 grid unit, threshold, threshold-1, 1/2, 1-ulp}: the state after the step must be y's bits exactly when the rule accepts; for f32: ALL 2^24 variates for 9 branch classes; history level (E3): all sequences of <= 3 (4) operations {step to candidate y with u low / just accepting / just rejecting / high, relocate the public current_state, replace the public target} on one chain, the rule re-checked after every step against the actual state and target; kernel level: exact acceptance probabilities A(x,y) = #accepting variates / 2^24 on finite spaces K=2 (quick) / 2..4 (thorough), detailed balance and pi P = pi. states = distinct (types, combination) / kernel pairs; transitions = real step() calls");
    step_level::<i32, f32>(ctx);
    step_level::<i32, f64>(ctx);
    step_level::<f32, f32>(ctx);
    step_level::<f64, f64>(ctx);
    equal_pairs_level::<i32, f32>(ctx);
    equal_pairs_level::<f32, f32>(ctx);
    equal_pairs_level::<f64, f64>(ctx);
    if ctx.outcome_count("equal-valued pair: y differs in bits / rule accepts") == 0 || ctx.outcome_count("equal-valued pair: y differs in bits / rule rejects") == 0 {
        ctx.machinery_error("vacuity guard: the equal-valued-pair layer met no accepting or no rejecting step between +0.0 and -0.0");
    }
    if ctx.tier.thorough() {
        equal_pairs_level::<i32, f64>(ctx);
        equal_pairs_level::<f32, f64>(ctx);
        equal_pairs_level::<f64, f32>(ctx);
        step_level::<f32, f64>(ctx);
        step_level::<f64, f32>(ctx);
    }
    histories(ctx);
    varlen(ctx);
    sweeps(ctx);
    kernels(ctx);
    ctx.assume("the acceptance draw is injected through the public `rng` field (generator state crafted so that its next output is the chosen variate); the premise 'a step consumes exactly that output' is verified on every execution (failure = exit 2, not a verdict)");
    if ctx.outcome_count("kernels-checked") == 0 {
        ctx.machinery_error("vacuity guard: no finite kernel was checked");
    }
}

pub fn check_case(ctx: &Ctx, case: &Value) {
    if case["level"].as_str() == Some("step") {
        let k: u64 = case["k"].as_str().and_then(|s| s.parse().ok()).unwrap_or(0);
        let pat: u8 = case["discarded_bits_pattern"].as_u64().unwrap_or(1) as u8;
        macro_rules! go {
            ($S:ty, $F:ty) => {{
                let cfg = StepCfg::<$F> { lp_x: pf(&case["lp_x"]) as $F, lp_y: pf(&case["lp_y"]) as $F, q_fwd: pf(&case["q_fwd"]) as $F, q_back: pf(&case["q_back"]) as $F };
                let xb = u64::from_str_radix(case["x_bits"].as_str().unwrap_or("0"), 16).unwrap_or(0);
                let x = <$S as StateVal>::odd_zero_states().into_iter().find(|s| s.bits() == xb).unwrap_or(<$S as StateVal>::from_index(0));
                if let Ok((acc, bits, _)) = one_step_pat::<$S, $F>(&cfg, &x, k, pat) {
                    let want = rule_accepts(cfg.lp_x, cfg.lp_y, cfg.q_fwd, cfg.q_back, <$F as UFloat>::variate(k));
                    if acc != want || (!acc && bits != x.bits()) {
                        ctx.violation(Violation::new("C01:rule(replay)", format!("variate {k}: rule says accept={want}, step accepted={acc}"), case.clone()));
                    }
                }
            }};
        }
        match (case["state_ty"].as_str(), case["float_ty"].as_str()) {
            (Some("i32"), Some("f32")) => go!(i32, f32),
            (Some("i32"), Some("f64")) => go!(i32, f64),
            (Some("f32"), Some("f32")) => go!(f32, f32),
            (Some("f32"), Some("f64")) => go!(f32, f64),
            (Some("f64"), Some("f32")) => go!(f64, f32),
            (Some("f64"), Some("f64")) => go!(f64, f64),
            _ => {}
        }
    } else if case["level"].as_str() == Some("equal-pair") {
        let k: u64 = case["k"].as_str().and_then(|s| s.parse().ok()).unwrap_or(0);
        macro_rules! gp {
            ($S:ty, $F:ty) => {{
                let cfg = StepCfg::<$F> { lp_x: pf(&case["lp_x"]) as $F, lp_y: pf(&case["lp_y"]) as $F, q_fwd: pf(&case["q_fwd"]) as $F, q_back: pf(&case["q_back"]) as $F };
                let xb = u64::from_str_radix(case["x_bits"].as_str().unwrap_or("0"), 16).unwrap_or(0);
                let yb = u64::from_str_radix(case["y_bits"].as_str().unwrap_or("0"), 16).unwrap_or(0);
                let zs = <$S as StateVal>::odd_zero_states();
                if let (Some(x), Some(y)) = (zs.iter().find(|s| s.bits() == xb), zs.iter().find(|s| s.bits() == yb)) {
                    check_pair::<$S, $F>(ctx, &cfg, x, y, k, case);
                }
            }};
        }
        match (case["state_ty"].as_str(), case["float_ty"].as_str()) {
            (Some("i32"), Some("f32")) => gp!(i32, f32),
            (Some("i32"), Some("f64")) => gp!(i32, f64),
            (Some("f32"), Some("f32")) => gp!(f32, f32),
            (Some("f32"), Some("f64")) => gp!(f32, f64),
            (Some("f64"), Some("f32")) => gp!(f64, f32),
            (Some("f64"), Some("f64")) => gp!(f64, f64),
            _ => {}
        }
    } else if case["level"].as_str() == Some("varlen") {
        varlen(ctx);
    } else if case["level"].as_str() == Some("history") {
        histories(ctx);
    } else {
        kernels(ctx);
    }
}
