//! E2 — controlled scheduler on real OS threads.
//!
//! Threads cooperate through `Session::point` (park until granted the single run token),
//! `Session::choose` (an environment answer taken by the running thread) and `Session::exit`.
//! Between points exactly one registered thread runs, so an execution is a sequentially consistent
//! interleaving at point granularity, fully determined by the list of decisions. Decisions are taken
//! by whichever thread observes quiescence (all live registered threads parked) — no controller thread.
//! `explore` enumerates all decision vectors depth-first under a deviation bound (a deviation is any
//! non-default answer; the default is index 0 of the canonical order supplied by the ranks).
#![allow(dead_code)]

use std::cell::RefCell;
use std::sync::{Arc, Condvar, Mutex};
use std::time::Duration;

#[derive(Clone, Copy, PartialEq, Eq, Debug)]
enum Status {
    Running,
    Parked,
    Exited,
}

struct Th {
    name: String,
    rank: i64,
    status: Status,
    label: String,
    handle: std::thread::Thread,
}

#[derive(Clone, Debug, PartialEq, Eq)]
pub struct Dec {
    pub n: u32,
    pub chosen: u32,
    pub kind: String,
}

#[derive(Clone, Copy, PartialEq, Eq)]
pub enum Order {
    /// the thread that ran last first (if still enabled), then ascending rank
    CurrentFirst,
    /// ascending rank only (give the reporter the highest rank so that it runs only when nothing else can, by default)
    RankOnly,
    /// the thread that ran last first if its rank is below `i64::MAX/2` (a worker), then ascending rank
    CurrentWorkerFirst,
}

struct St {
    threads: Vec<Th>,
    expected: usize,
    token: Option<usize>,
    last: Option<usize>,
    prefix: Vec<u32>,
    decisions: Vec<Dec>,
    trace: Vec<String>,
    error: Option<String>,
    aborted: bool,
    order: Order,
    events: Vec<String>,
    /// arrival-order reduction: after a worker (rank < MAX/2) ran, only workers of HIGHER rank (and the reporter) are enabled
    ascending_workers: bool,
    /// run threads in exactly this order (by name); overrides prefix/default
    script: Option<Vec<String>>,
    script_pos: usize,
    /// max consecutive grants to the high-rank thread (reporter) while workers are parked; 0 = unlimited
    idle_bound: usize,
    idle_run: usize,
}

pub struct Session {
    m: Mutex<St>,
    cv: Condvar,
    pub watchdog: Duration,
}

struct ExitGuard {
    session: Arc<Session>,
    idx: usize,
}
impl Drop for ExitGuard {
    fn drop(&mut self) {
        self.session.exit_idx(self.idx);
    }
}
thread_local! {
    static GUARD: RefCell<Option<ExitGuard>> = const { RefCell::new(None) };
}

pub struct Outcome {
    pub decisions: Vec<Dec>,
    pub trace: Vec<String>,
    pub events: Vec<String>,
    pub error: Option<String>,
}

impl Session {
    pub fn new(expected: usize, prefix: Vec<u32>, order: Order) -> Arc<Session> {
        Arc::new(Session {
            m: Mutex::new(St { threads: vec![], expected, token: None, last: None, prefix, decisions: vec![], trace: vec![], error: None, aborted: false, order, events: vec![], ascending_workers: false, script: None, script_pos: 0, idle_bound: 0, idle_run: 0 }),
            cv: Condvar::new(),
            watchdog: Duration::from_secs(240),
        })
    }

    /// Arrival-order mode (see DESIGN C10): ascending-worker reduction and an idle-poll bound for the reporter.
    pub fn set_arrival_mode(&self, idle_bound: usize) {
        let mut st = self.lock();
        st.ascending_workers = true;
        st.idle_bound = idle_bound;
    }

    /// Run threads in exactly the given order (by name).
    pub fn set_script(&self, names: Vec<String>) {
        self.lock().script = Some(names);
    }

    fn wake_all(st: &St) {
        for t in st.threads.iter() {
            if t.status == Status::Parked {
                t.handle.unpark();
            }
        }
    }

    fn lock(&self) -> std::sync::MutexGuard<'_, St> {
        self.m.lock().unwrap_or_else(|e| e.into_inner())
    }

    /// Record an observation event of the running thread (part of the observation trace).
    pub fn event(&self, s: String) {
        self.lock().events.push(s);
    }

    pub fn abort(&self, why: &str) {
        let mut st = self.lock();
        if st.error.is_none() {
            st.error = Some(why.to_string());
        }
        st.aborted = true;
        Self::wake_all(&st);
    }

    pub fn is_aborted(&self) -> bool {
        self.lock().aborted
    }

    /// Number of registered threads that have not exited, excluding `name`.
    pub fn live_others(&self, name: &str) -> usize {
        self.lock().threads.iter().filter(|t| t.status != Status::Exited && t.name != name).count()
    }

    fn find_or_register(self: &Arc<Self>, st: &mut St, name: &str, rank: i64) -> usize {
        if let Some(i) = st.threads.iter().position(|t| t.name == name) {
            return i;
        }
        st.threads.push(Th { name: name.to_string(), rank, status: Status::Running, label: String::new(), handle: std::thread::current() });
        let idx = st.threads.len() - 1;
        let g = ExitGuard { session: self.clone(), idx };
        GUARD.with(|c| *c.borrow_mut() = Some(g));
        idx
    }

    /// Scheduling point: park until this thread is granted the token. Panics if the execution was aborted.
    pub fn point(self: &Arc<Self>, name: &str, rank: i64, label: &str) {
        let mut st = self.lock();
        let me = self.find_or_register(&mut st, name, rank);
        st.threads[me].status = Status::Parked;
        st.threads[me].label = label.to_string();
        self.maybe_decide(&mut st);
        loop {
            if st.aborted {
                st.threads[me].status = Status::Exited;
                drop(st);
                panic!("e2: execution aborted");
            }
            if st.token == Some(me) {
                st.token = None;
                return;
            }
            drop(st);
            let t0 = std::time::Instant::now();
            std::thread::park_timeout(self.watchdog);
            st = self.lock();
            if t0.elapsed() >= self.watchdog && st.token != Some(me) && !st.aborted {
                st.error.get_or_insert_with(|| format!("watchdog: thread {name} parked at {label} for {:?} (a thread blocks outside the controlled points, or a registered thread never arrived)", self.watchdog));
                st.aborted = true;
                Self::wake_all(&st);
            }
        }
    }

    /// An environment answer in 0..n taken by the running thread (default 0).
    pub fn choose(&self, kind: &str, n: u32) -> u32 {
        let mut st = self.lock();
        let k = st.decisions.len();
        let c = if k < st.prefix.len() { st.prefix[k] } else { 0 };
        if c >= n {
            st.error.get_or_insert_with(|| format!("replay divergence: decision {k} ({kind}) has {n} alternatives, prefix asks for {c}"));
            st.aborted = true;
            Self::wake_all(&st);
            drop(st);
            panic!("e2: replay divergence");
        }
        st.decisions.push(Dec { n, chosen: c, kind: kind.to_string() });
        c
    }

    pub fn exit(self: &Arc<Self>, name: &str) {
        let idx = {
            let st = self.lock();
            st.threads.iter().position(|t| t.name == name)
        };
        if let Some(i) = idx {
            self.exit_idx(i);
        }
    }

    fn exit_idx(&self, idx: usize) {
        let mut st = self.lock();
        if st.threads[idx].status == Status::Exited {
            return;
        }
        st.threads[idx].status = Status::Exited;
        self.maybe_decide(&mut st);
    }

    fn maybe_decide(&self, st: &mut St) {
        if st.aborted || st.threads.len() < st.expected || st.token.is_some() {
            return;
        }
        if st.threads.iter().any(|t| t.status == Status::Running) {
            return;
        }
        let mut enabled: Vec<usize> = (0..st.threads.len()).filter(|i| st.threads[*i].status == Status::Parked).collect();
        if enabled.is_empty() {
            return;
        }
        enabled.sort_by_key(|i| (st.threads[*i].rank, st.threads[*i].name.clone()));
        let cur_first = match st.order {
            Order::CurrentFirst => true,
            Order::RankOnly => false,
            Order::CurrentWorkerFirst => st.last.map(|l| st.threads[l].rank < i64::MAX / 2).unwrap_or(false),
        };
        if cur_first {
            if let Some(l) = st.last {
                if let Some(p) = enabled.iter().position(|i| *i == l) {
                    let x = enabled.remove(p);
                    enabled.insert(0, x);
                }
            }
        }
        let half = i64::MAX / 2;
        if st.ascending_workers {
            if let Some(l) = st.last {
                let lr = st.threads[l].rank;
                if lr < half {
                    let keep: Vec<usize> = enabled.iter().cloned().filter(|i| st.threads[*i].rank >= half || st.threads[*i].rank > lr).collect();
                    if !keep.is_empty() {
                        enabled = keep;
                    }
                }
            }
        }
        if st.idle_bound > 0 && st.idle_run >= st.idle_bound {
            let keep: Vec<usize> = enabled.iter().cloned().filter(|i| st.threads[*i].rank < half).collect();
            if !keep.is_empty() {
                enabled = keep;
            }
        }
        if let Some(script) = st.script.clone() {
            let want = script.get(st.script_pos).cloned();
            st.script_pos += 1;
            let pick = want.as_ref().and_then(|w| enabled.iter().position(|i| st.threads[*i].name == *w));
            match pick {
                Some(p) => {
                    let t = enabled[p];
                    st.threads[t].status = Status::Running;
                    st.token = Some(t);
                    st.last = Some(t);
                    let s = format!("{}@{}", st.threads[t].name, st.threads[t].label);
                    st.trace.push(s);
                    st.threads[t].handle.unpark();
                    return;
                }
                None => {
                    // script exhausted or names not enabled: fall through to the default choice when exhausted
                    if want.is_some() {
                        let names: Vec<String> = enabled.iter().map(|i| st.threads[*i].name.clone()).collect();
                        st.error.get_or_insert_with(|| format!("script step {} wants {:?}, enabled {:?}", st.script_pos - 1, want, names));
                        st.aborted = true;
                        Self::wake_all(st);
                        return;
                    }
                }
            }
        }
        let choice = if enabled.len() == 1 {
            0
        } else {
            let k = st.decisions.len();
            let c = if k < st.prefix.len() { st.prefix[k] } else { 0 };
            if c as usize >= enabled.len() {
                st.error.get_or_insert_with(|| format!("replay divergence: decision {k} (sched) has {} enabled threads, prefix asks for {c}", enabled.len()));
                st.aborted = true;
                Self::wake_all(st);
                return;
            }
            let names: Vec<String> = enabled.iter().map(|i| st.threads[*i].name.clone()).collect();
            st.decisions.push(Dec { n: enabled.len() as u32, chosen: c, kind: format!("sched[{}]", names.join(",")) });
            c as usize
        };
        let t = enabled[choice];
        if st.threads[t].rank >= half && enabled.len() > 1 {
            st.idle_run += 1;
        } else if st.threads[t].rank < half {
            st.idle_run = 0;
        }
        st.threads[t].status = Status::Running;
        st.token = Some(t);
        st.last = Some(t);
        let s = format!("{}@{}", st.threads[t].name, st.threads[t].label);
        st.trace.push(s);
        st.threads[t].handle.unpark();
    }

    pub fn outcome(&self) -> Outcome {
        let st = self.lock();
        Outcome { decisions: st.decisions.clone(), trace: st.trace.clone(), events: st.events.clone(), error: st.error.clone() }
    }
}

pub struct ExploreStats {
    pub executions: u64,
    pub decisions: u64,
    pub max_decisions: usize,
    pub capped: bool,
}

/// Depth-first enumeration of all decision vectors with at most `bound` deviations.
/// `run(prefix)` executes once and returns the decisions actually taken (prefix first, defaults after);
/// return `Err` for a machinery failure (stops the exploration).
pub fn explore(bound: usize, max_execs: u64, mut run: impl FnMut(&[u32]) -> Result<Vec<Dec>, String>) -> Result<ExploreStats, String> {
    let mut stack: Vec<Vec<u32>> = vec![vec![]];
    let mut stats = ExploreStats { executions: 0, decisions: 0, max_decisions: 0, capped: false };
    while let Some(prefix) = stack.pop() {
        if stats.executions >= max_execs {
            stats.capped = true;
            break;
        }
        let decs = run(&prefix)?;
        stats.executions += 1;
        stats.decisions += decs.len() as u64;
        stats.max_decisions = stats.max_decisions.max(decs.len());
        if decs.len() < prefix.len() {
            return Err(format!("replay divergence: execution took {} decisions, prefix has {}", decs.len(), prefix.len()));
        }
        for (i, p) in prefix.iter().enumerate() {
            if decs[i].chosen != *p {
                return Err(format!("replay divergence at decision {i}"));
            }
        }
        let mut dev_before: usize = decs[..prefix.len()].iter().filter(|d| d.chosen != 0).count();
        for i in prefix.len()..decs.len() {
            // decs[i].chosen is the default (0) here
            if dev_before + 1 <= bound {
                for alt in (1..decs[i].n).rev() {
                    let mut p: Vec<u32> = decs[..i].iter().map(|d| d.chosen).collect();
                    p.push(alt);
                    stack.push(p);
                }
            }
            if decs[i].chosen != 0 {
                dev_before += 1;
            }
        }
    }
    Ok(stats)
}
