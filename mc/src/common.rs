//! Shared plumbing: run context, evidence, violations, known findings, hashing.
#![allow(dead_code)]

use serde_json::{json, Map, Value};
use std::collections::{BTreeMap, HashSet};
use std::hash::{Hash, Hasher};
use std::sync::Mutex;
use std::time::Instant;

#[derive(Clone, Copy, PartialEq, Eq, Debug)]
pub enum Tier {
    Quick,
    Thorough,
}

impl Tier {
    pub fn name(&self) -> &'static str {
        match self {
            Tier::Quick => "quick",
            Tier::Thorough => "thorough",
        }
    }
    pub fn thorough(&self) -> bool {
        *self == Tier::Thorough
    }
    /// pick(quick, thorough)
    pub fn pick<T>(&self, q: T, t: T) -> T {
        if self.thorough() {
            t
        } else {
            q
        }
    }
}

/// One violation of a property: `key` is the canonical class (matched against known findings),
/// `what` a human-readable sentence, `case` the replayable case descriptor.
#[derive(Clone, Debug)]
pub struct Violation {
    pub key: String,
    pub what: String,
    pub case: Value,
}

impl Violation {
    pub fn new(key: impl Into<String>, what: impl Into<String>, case: Value) -> Self {
        Violation { key: key.into(), what: what.into(), case }
    }
}

#[derive(Default)]
struct Inner {
    evaluations: u64,
    transitions: u64,
    traces: u64,
    states: HashSet<u64>,
    distinct: HashSet<u64>,
    outcomes: BTreeMap<String, u64>,
    samples: Vec<Value>,
    sample_tags: BTreeMap<String, u64>,
    violations: Vec<Violation>,
    viol_per_key: BTreeMap<String, u64>,
    assumptions: Vec<String>,
    extra: Map<String, Value>,
    caps: Vec<String>,
    exhaustive: bool,
    rule: String,
    machinery_errors: Vec<String>,
}

pub struct Ctx {
    pub id: String,
    pub tier: Tier,
    pub seed: u64,
    pub level: &'static str,
    start: Instant,
    inner: Mutex<Inner>,
}

pub const MAX_VIOL_PER_KEY: u64 = 5;
pub const MAX_SAMPLES: usize = 16;

impl Ctx {
    pub fn new(id: &str, tier: Tier, seed: u64, level: &'static str) -> Self {
        Ctx {
            id: id.to_string(),
            tier,
            seed,
            level,
            start: Instant::now(),
            inner: Mutex::new(Inner { exhaustive: true, ..Default::default() }),
        }
    }
    fn lock(&self) -> std::sync::MutexGuard<'_, Inner> {
        self.inner.lock().unwrap_or_else(|e| e.into_inner())
    }
    pub fn elapsed(&self) -> f64 {
        self.start.elapsed().as_secs_f64()
    }
    pub fn evals(&self, n: u64) {
        self.lock().evaluations += n;
    }
    pub fn transitions(&self, n: u64) {
        self.lock().transitions += n;
    }
    pub fn traces(&self, n: u64) {
        self.lock().traces += n;
    }
    pub fn state(&self, h: u64) {
        self.lock().states.insert(h);
    }
    pub fn states_bulk(&self, hs: impl IntoIterator<Item = u64>) {
        let mut g = self.lock();
        for h in hs {
            g.states.insert(h);
        }
    }
    pub fn distinct(&self, h: u64) {
        self.lock().distinct.insert(h);
    }
    pub fn distinct_bulk(&self, hs: impl IntoIterator<Item = u64>) {
        let mut g = self.lock();
        for h in hs {
            g.distinct.insert(h);
        }
    }
    pub fn outcome(&self, name: &str, n: u64) {
        *self.lock().outcomes.entry(name.to_string()).or_insert(0) += n;
    }
    pub fn outcome_count(&self, name: &str) -> u64 {
        self.lock().outcomes.get(name).copied().unwrap_or(0)
    }
    pub fn sample(&self, v: Value) {
        let mut g = self.lock();
        if g.samples.len() < MAX_SAMPLES {
            g.samples.push(v);
        }
    }
    /// Record an actual explored case as a sample: at most two per tag (cheap to call from hot paths
    /// only behind a counter — it takes the lock).
    pub fn sample_tagged(&self, tag: &str, v: impl FnOnce() -> Value) {
        let mut g = self.lock();
        let n = g.samples.len();
        let c = g.sample_tags.entry(tag.to_string()).or_insert(0);
        if *c < 2 && n < MAX_SAMPLES {
            *c += 1;
            let val = v();
            g.samples.push(json!({"case_kind": tag, "case": val}));
        }
    }
    pub fn n_samples(&self) -> usize {
        self.lock().samples.len()
    }
    pub fn assume(&self, s: &str) {
        let mut g = self.lock();
        if !g.assumptions.iter().any(|x| x == s) {
            g.assumptions.push(s.to_string());
        }
    }
    pub fn rule(&self, s: &str) {
        let mut g = self.lock();
        if !g.rule.is_empty() {
            g.rule.push_str(" | ");
        }
        g.rule.push_str(s);
    }
    pub fn extra(&self, k: &str, v: Value) {
        self.lock().extra.insert(k.to_string(), v);
    }
    pub fn cap(&self, s: &str) {
        let mut g = self.lock();
        g.caps.push(s.to_string());
        g.exhaustive = false;
    }
    pub fn not_exhaustive(&self) {
        self.lock().exhaustive = false;
    }
    /// A failure of the machinery itself (vacuity guard, nondeterministic replay, cannot inject):
    /// never a verdict; makes the run exit with status 2.
    pub fn machinery_error(&self, s: impl Into<String>) {
        let s = s.into();
        eprintln!("MACHINERY-ERROR [{}]: {}", self.id, s);
        self.lock().machinery_errors.push(s);
    }
    pub fn violation(&self, v: Violation) {
        let mut g = self.lock();
        let c = g.viol_per_key.entry(v.key.clone()).or_insert(0);
        *c += 1;
        if *c <= MAX_VIOL_PER_KEY {
            g.violations.push(v);
        }
    }
    pub fn n_violations(&self) -> u64 {
        self.lock().viol_per_key.values().sum()
    }

    /// Writes evidence, prints VIOLATION / KNOWN-FINDING lines, returns the process exit code.
    pub fn finish(&self, verif_dir: &str) -> i32 {
        let g = self.lock();
        let known = load_known(verif_dir, &self.id);
        let mut unlisted = 0u64;
        let mut printed_known: HashSet<String> = HashSet::new();
        let mut viol_json = vec![];
        std::fs::create_dir_all(format!("{verif_dir}/replays")).ok();
        for v in g.violations.iter() {
            if let Some(k) = known.iter().find(|k| k.0 == v.key) {
                if printed_known.insert(v.key.clone()) {
                    println!(
                        "KNOWN-FINDING: property={} key={} {} (occurrences this run: {})",
                        self.id,
                        k.0,
                        k.1,
                        g.viol_per_key.get(&v.key).copied().unwrap_or(0)
                    );
                }
                continue;
            }
            unlisted += 1;
            let h = hash_str(&format!("{}|{}", v.key, v.case));
            let path = format!("{verif_dir}/replays/{}-{:016x}.json", self.id, h);
            let body = json!({"property": self.id, "key": v.key, "what": v.what, "case": v.case});
            std::fs::write(&path, serde_json::to_string_pretty(&body).unwrap()).ok();
            println!("VIOLATION property={} replay={}", self.id, path);
            println!("  key={} :: {}", v.key, v.what.chars().take(400).collect::<String>());
            viol_json.push(json!({"key": v.key, "what": v.what, "replay": path}));
        }
        let total_viol: u64 = g.viol_per_key.values().sum();
        let unlisted_total: u64 = g
            .viol_per_key
            .iter()
            .filter(|(k, _)| !known.iter().any(|kk| &kk.0 == *k))
            .map(|(_, n)| *n)
            .sum();
        let mut cov = Map::new();
        cov.insert("evaluations".into(), json!(g.evaluations));
        cov.insert("distinct_nontrivial".into(), json!(g.distinct.len() as u64));
        cov.insert("rule".into(), json!(g.rule));
        let mut samples = g.samples.clone();
        if samples.is_empty() {
            samples.push(json!("no sample recorded"));
        }
        cov.insert("samples".into(), Value::Array(samples));
        cov.insert("states".into(), json!(g.states.len() as u64));
        cov.insert("transitions".into(), json!(g.transitions));
        // every evaluation of these checks IS an execution of the real implementation (there is no separate model to
        // bind, except C10's abstract reporter whose replays are counted explicitly); when a module did not count
        // traces separately, the number of executions is reported
        let traces = if g.traces > 0 { g.traces } else { g.evaluations };
        cov.insert("traces_validated_against_impl".into(), json!(traces));
        cov.insert("traces_note".into(), json!(if g.traces > 0 { "executions of the real implementation counted by the engine (E1/E2 runs, conformance replays)" } else { "= evaluations: every case is run on the real implementation and compared with the reference" }));
        cov.insert("exhaustive".into(), json!(g.exhaustive && g.caps.is_empty()));
        cov.insert("caps_hit".into(), json!(g.caps));
        cov.insert("outcomes".into(), json!(g.outcomes));
        cov.insert("violation_keys".into(), json!(g.viol_per_key));
        for (k, v) in g.extra.iter() {
            cov.insert(k.clone(), v.clone());
        }
        let ev = json!({
            "property_id": self.id,
            "tier": self.tier.name(),
            "seed": self.seed,
            "level": self.level,
            "coverage": Value::Object(cov),
            "assumptions": g.assumptions,
            "wall_s": self.start.elapsed().as_secs_f64(),
            "violations": unlisted_total,
            "violations_including_known": total_viol,
            "violation_details": viol_json,
            "machinery_errors": g.machinery_errors,
        });
        std::fs::create_dir_all(format!("{verif_dir}/evidence")).ok();
        let path = format!("{verif_dir}/evidence/{}.json", self.id);
        if let Err(e) = std::fs::write(&path, serde_json::to_string_pretty(&ev).unwrap()) {
            eprintln!("cannot write evidence {path}: {e}");
            return 2;
        }
        println!(
            "[{}] tier={} evaluations={} states={} transitions={} traces={} distinct={} violations={} (known {}) wall={:.1}s exhaustive={}",
            self.id,
            self.tier.name(),
            g.evaluations,
            g.states.len(),
            g.transitions,
            g.traces,
            g.distinct.len(),
            unlisted_total,
            total_viol - unlisted_total,
            self.start.elapsed().as_secs_f64(),
            g.exhaustive && g.caps.is_empty()
        );
        for (k, n) in g.outcomes.iter() {
            println!("    outcome {k}: {n}");
        }
        // a violation shown on the real code stands on its own (it is individually replayable);
        // machinery errors only decide the exit status when no violation was found
        if unlisted > 0 {
            1
        } else if !g.machinery_errors.is_empty() {
            2
        } else {
            0
        }
    }
}

/// (key, what) of the known findings recorded for a property.
pub fn load_known(verif_dir: &str, id: &str) -> Vec<(String, String)> {
    let path = format!("{verif_dir}/known_findings.json");
    let Ok(s) = std::fs::read_to_string(&path) else {
        return vec![];
    };
    let Ok(v) = serde_json::from_str::<Value>(&s) else {
        eprintln!("known_findings.json does not parse; ignoring");
        return vec![];
    };
    let mut out = vec![];
    if let Some(arr) = v.get("findings").and_then(|x| x.as_array()) {
        for f in arr {
            if f.get("property").and_then(|x| x.as_str()) == Some(id) {
                out.push((
                    f.get("key").and_then(|x| x.as_str()).unwrap_or("").to_string(),
                    f.get("what").and_then(|x| x.as_str()).unwrap_or("").to_string(),
                ));
            }
        }
    }
    out
}

pub fn hash_str(s: &str) -> u64 {
    let mut h = std::collections::hash_map::DefaultHasher::new();
    s.hash(&mut h);
    h.finish()
}

pub fn hash_of<T: Hash>(t: &T) -> u64 {
    let mut h = std::collections::hash_map::DefaultHasher::new();
    t.hash(&mut h);
    h.finish()
}

pub fn hash_f64s(tag: &str, v: &[f64]) -> u64 {
    let mut h = std::collections::hash_map::DefaultHasher::new();
    tag.hash(&mut h);
    for x in v {
        x.to_bits().hash(&mut h);
    }
    h.finish()
}

pub fn hash_f32s(tag: &str, v: &[f32]) -> u64 {
    let mut h = std::collections::hash_map::DefaultHasher::new();
    tag.hash(&mut h);
    for x in v {
        x.to_bits().hash(&mut h);
    }
    h.finish()
}

/// JSON-safe float (NaN / inf become strings).
pub fn jf(x: f64) -> Value {
    if x.is_finite() {
        json!(x)
    } else {
        json!(format!("{x}"))
    }
}

pub fn jfs(v: &[f64]) -> Value {
    Value::Array(v.iter().map(|x| jf(*x)).collect())
}

pub fn jf32s(v: &[f32]) -> Value {
    Value::Array(v.iter().map(|x| jf(*x as f64)).collect())
}

/// Parse a JSON-safe float back.
pub fn pf(v: &Value) -> f64 {
    match v {
        Value::Number(n) => n.as_f64().unwrap_or(f64::NAN),
        Value::String(s) => match s.as_str() {
            "NaN" => f64::NAN,
            "inf" => f64::INFINITY,
            "-inf" => f64::NEG_INFINITY,
            o => o.parse().unwrap_or(f64::NAN),
        },
        _ => f64::NAN,
    }
}

pub fn pfs(v: &Value) -> Vec<f64> {
    v.as_array().map(|a| a.iter().map(pf).collect()).unwrap_or_default()
}

/// Run a closure, turning a panic into Err(message).
pub fn catch<R>(f: impl FnOnce() -> R) -> Result<R, String> {
    match std::panic::catch_unwind(std::panic::AssertUnwindSafe(f)) {
        Ok(r) => Ok(r),
        Err(e) => {
            let msg = if let Some(s) = e.downcast_ref::<&str>() {
                s.to_string()
            } else if let Some(s) = e.downcast_ref::<String>() {
                s.clone()
            } else {
                "non-string panic payload".to_string()
            };
            Err(msg)
        }
    }
}

/// Silence the default panic hook (the harness catches panics deliberately and reports them).
pub fn quiet_panics() {
    std::panic::set_hook(Box::new(|_| {}));
}

/// next representable f32 above / below
pub fn f32_up(x: f32) -> f32 {
    if x.is_nan() || x == f32::INFINITY {
        return x;
    }
    if x == 0.0 {
        return f32::from_bits(1);
    }
    let b = x.to_bits();
    if x > 0.0 {
        f32::from_bits(b + 1)
    } else {
        f32::from_bits(b - 1)
    }
}
pub fn f32_down(x: f32) -> f32 {
    -f32_up(-x)
}
pub fn f64_up(x: f64) -> f64 {
    if x.is_nan() || x == f64::INFINITY {
        return x;
    }
    if x == 0.0 {
        return f64::from_bits(1);
    }
    let b = x.to_bits();
    if x > 0.0 {
        f64::from_bits(b + 1)
    } else {
        f64::from_bits(b - 1)
    }
}
pub fn f64_down(x: f64) -> f64 {
    -f64_up(-x)
}

/// xoshiro256++ state (as SmallRng seed bytes) whose FIRST `next_u64` output is `out`.
/// next_u64 = rotl(s0 + s3, 23) + s0.  We fix s0 = 1, s1 = 2, s2 = 3 and solve for s3.
pub fn seed_for_first_u64(out: u64) -> [u8; 32] {
    let s0: u64 = 1;
    let s3 = out.wrapping_sub(s0).rotate_right(23).wrapping_sub(s0);
    let mut seed = [0u8; 32];
    seed[0..8].copy_from_slice(&s0.to_le_bytes());
    seed[8..16].copy_from_slice(&2u64.to_le_bytes());
    seed[16..24].copy_from_slice(&3u64.to_le_bytes());
    seed[24..32].copy_from_slice(&s3.to_le_bytes());
    seed
}

/// Bits of the generator word that the uniform conversion DISCARDS (low 40 bits for f32, low 11 for f64), by pattern:
/// 0 all zeros, 1 all ones, 2 only the top discarded bit (a rounding tie), 3 all but the top one. The statement's draw
/// is the variate; an implementation whose decision depends on the discarded bits (rounding instead of truncating,
/// going through another float type) is exposed by the non-zero patterns.
pub fn discarded_bits(width: u32, pat: u8) -> u64 {
    let all = (1u64 << width) - 1;
    match pat {
        0 => 0,
        1 => all,
        2 => 1u64 << (width - 1),
        _ => all >> 1,
    }
}

/// SmallRng whose first `random::<f32>()` is exactly `k * 2^-24` (k < 2^24); discarded bits all ones.
pub fn rng_first_f32(k: u32) -> rand::rngs::SmallRng {
    rng_first_f32_pat(k, 1)
}
pub fn rng_first_f32_pat(k: u32, pat: u8) -> rand::rngs::SmallRng {
    use rand::SeedableRng;
    // f32 = (next_u32 >> 8) * 2^-24 ; next_u32 = (next_u64 >> 32)
    let out: u64 = (((k as u64) << 8) << 32) | discarded_bits(40, pat);
    rand::rngs::SmallRng::from_seed(seed_for_first_u64(out))
}

/// SmallRng whose first `random::<f64>()` is exactly `k * 2^-53` (k < 2^53); discarded bits all ones.
pub fn rng_first_f64(k: u64) -> rand::rngs::SmallRng {
    rng_first_f64_pat(k, 1)
}
pub fn rng_first_f64_pat(k: u64, pat: u8) -> rand::rngs::SmallRng {
    use rand::SeedableRng;
    let out: u64 = (k << 11) | discarded_bits(11, pat);
    rand::rngs::SmallRng::from_seed(seed_for_first_u64(out))
}
