//! Behaviour digests over a fixed grid of seeded runs, using the crate's PUBLIC, hook-free API only.
//! Compiled twice: into `mc` (library built with feature `verif`) and into `plain` (library built without it).
//! Equal digests on every grid member = the hooks are pass-throughs when no explorer session is active, so verdicts
//! obtained on the hooks-on build carry over to the build users get.
#![allow(dead_code)]
use burn::backend::{Autodiff, NdArray};
use burn::tensor::Tensor;
use mini_mcmc::core::{init_det, init_with_seed, ChainRunner};
use mini_mcmc::distributions::{Conditional, DiffableGaussian2D, Gaussian2D, IsotropicGaussian, Rosenbrock2D};
use mini_mcmc::gibbs::GibbsSampler;
use mini_mcmc::hmc::HMC;
use mini_mcmc::metropolis_hastings::MetropolisHastings;
use mini_mcmc::nuts::NUTS;
use mini_mcmc::stats::{basic_stats, split_rhat_mean_ess, RunStats};
use ndarray::{arr1, arr2, Array1, Array3};

fn fnv(h: &mut u64, x: u64) {
    for b in x.to_le_bytes() {
        *h ^= b as u64;
        *h = h.wrapping_mul(0x100000001b3);
    }
}
fn h_f64s<I: IntoIterator<Item = f64>>(it: I) -> u64 {
    let mut h = 0xcbf29ce484222325u64;
    for x in it {
        fnv(&mut h, x.to_bits());
    }
    h
}
fn h_bytes(b: &[u8]) -> u64 {
    let mut h = 0xcbf29ce484222325u64;
    for x in b {
        h ^= *x as u64;
        h = h.wrapping_mul(0x100000001b3);
    }
    h
}
fn h_stats(s: &RunStats) -> u64 {
    h_f64s(
        [s.ess.min, s.ess.median, s.ess.max, s.ess.mean, s.ess.std, s.rhat.min, s.rhat.median, s.rhat.max, s.rhat.mean, s.rhat.std]
            .iter()
            .map(|x| *x as f64),
    )
}
fn h_t3<B: burn::tensor::backend::Backend>(t: &Tensor<B, 3>) -> u64 {
    let d = t.to_data();
    let v: Vec<f64> = d.convert::<f64>().to_vec::<f64>().unwrap();
    let mut h = h_f64s(v);
    for s in t.dims() {
        fnv(&mut h, s as u64);
    }
    h
}

/// Conditional with its own deterministic generator (the Gibbs chain's rng is not handed to conditionals).
#[derive(Clone)]
struct LcgCond {
    s: u64,
}
impl Conditional<f64> for LcgCond {
    fn sample(&mut self, i: usize, given: &[f64]) -> f64 {
        self.s = self.s.wrapping_mul(6364136223846793005).wrapping_add(1442695040888963407);
        let u = (self.s >> 11) as f64 / (1u64 << 53) as f64;
        0.5 * given[1 - i.min(1)] + u - 0.5
    }
}

pub fn digests(tmpdir: &str) -> Vec<(String, u64)> {
    let mut out: Vec<(String, u64)> = vec![];
    // ---- Metropolis-Hastings (f64 and f32), run and run_progress
    for seed in [1u64, 42, u64::MAX] {
        for n_chains in [1usize, 3] {
            let target = Gaussian2D { mean: arr1(&[0.5f64, -1.0]), cov: arr2(&[[2.0, 0.3], [0.3, 1.0]]) };
            let mut mh = MetropolisHastings::new(target.clone(), IsotropicGaussian::new(0.9f64), init_det(n_chains, 2)).seed(seed);
            let s = mh.run(40, 7).unwrap();
            out.push((format!("mh64.run seed={seed} chains={n_chains}"), h_f64s(s.iter().copied())));
            let s2 = mh.run(5, 0).unwrap();
            out.push((format!("mh64.run-again seed={seed} chains={n_chains}"), h_f64s(s2.iter().copied())));
            let mut mh = MetropolisHastings::new(target, IsotropicGaussian::new(0.9f64), init_det(n_chains, 2)).seed(seed);
            let (s, st) = mh.run_progress(40, 7).unwrap();
            out.push((format!("mh64.run_progress seed={seed} chains={n_chains}"), h_f64s(s.iter().copied())));
            out.push((format!("mh64.run_progress.stats seed={seed} chains={n_chains}"), h_stats(&st)));
            let t32 = Gaussian2D { mean: arr1(&[0.5f32, -1.0]), cov: arr2(&[[2.0, 0.3], [0.3, 1.0]]) };
            let mut mh = MetropolisHastings::new(t32, IsotropicGaussian::new(0.9f32), init_with_seed(n_chains, 2, seed)).seed(seed);
            let s = mh.run(30, 3).unwrap();
            out.push((format!("mh32.run seed={seed} chains={n_chains}"), h_f64s(s.iter().map(|x| *x as f64))));
        }
    }
    // ---- Gibbs
    for seed in [3u64, 77] {
        let mut g = GibbsSampler::new(LcgCond { s: seed }, init_det::<f64>(3, 2)).set_seed(seed);
        let s = g.run(30, 4).unwrap();
        out.push((format!("gibbs.run seed={seed}"), h_f64s(s.iter().copied())));
        let mut g = GibbsSampler::new(LcgCond { s: seed }, init_det::<f64>(3, 2)).set_seed(seed);
        let (s, st) = g.run_progress(30, 4).unwrap();
        out.push((format!("gibbs.run_progress seed={seed}"), h_f64s(s.iter().copied())));
        out.push((format!("gibbs.run_progress.stats seed={seed}"), h_stats(&st)));
    }
    // ---- HMC (f32 and f64 backends), run / run_progress / step
    type B32 = Autodiff<NdArray<f32>>;
    type B64 = Autodiff<NdArray<f64>>;
    for seed in [5u64, 99] {
        for n_chains in [1usize, 3] {
            let mut hmc = HMC::<f32, B32, _>::new(Rosenbrock2D { a: 1.0f32, b: 100.0f32 }, init_det(n_chains, 2), 0.03, 7).set_seed(seed);
            let s = hmc.run(12, 3);
            out.push((format!("hmc32.run seed={seed} chains={n_chains}"), h_t3(&s)));
            let s2 = hmc.run(4, 0);
            out.push((format!("hmc32.run-again seed={seed} chains={n_chains}"), h_t3(&s2)));
            let mut hmc = HMC::<f32, B32, _>::new(Rosenbrock2D { a: 1.0f32, b: 100.0f32 }, init_det(n_chains, 2), 0.03, 7).set_seed(seed);
            let (s, st) = hmc.run_progress(12, 3).unwrap();
            out.push((format!("hmc32.run_progress seed={seed} chains={n_chains}"), h_t3(&s)));
            out.push((format!("hmc32.run_progress.stats seed={seed} chains={n_chains}"), h_stats(&st)));
            let tg = DiffableGaussian2D::new([0.0f64, 1.0], [[1.5, 0.4], [0.4, 0.8]]);
            let mut hmc = HMC::<f64, B64, _>::new(tg, init_det(n_chains, 2), 0.2, 5).set_seed(seed);
            let s = hmc.run(12, 3);
            out.push((format!("hmc64.run seed={seed} chains={n_chains}"), h_t3(&s)));
        }
    }
    // ---- NUTS
    for seed in [7u64, 1234] {
        for n_chains in [1usize, 2] {
            let tg = DiffableGaussian2D::new([0.0f32, 1.0], [[1.5, 0.4], [0.4, 0.8]]);
            let mut nuts = NUTS::<f32, B32, _>::new(tg.clone(), init_det(n_chains, 2), 0.8).set_seed(seed);
            let s = nuts.run(10, 8);
            out.push((format!("nuts32.run seed={seed} chains={n_chains}"), h_t3(&s)));
            let s2 = nuts.run(3, 0);
            out.push((format!("nuts32.run-again seed={seed} chains={n_chains}"), h_t3(&s2)));
            let mut nuts = NUTS::<f32, B32, _>::new(tg, init_det(n_chains, 2), 0.8).set_seed(seed);
            let (s, st) = nuts.run_progress(10, 8).unwrap();
            out.push((format!("nuts32.run_progress seed={seed} chains={n_chains}"), h_t3(&s)));
            out.push((format!("nuts32.run_progress.stats seed={seed} chains={n_chains}"), h_stats(&st)));
            let tg = DiffableGaussian2D::new([0.0f64, 1.0], [[1.5, 0.4], [0.4, 0.8]]);
            let mut nuts = NUTS::<f64, B64, _>::new(tg, init_det(n_chains, 2), 0.65).set_seed(seed);
            let s = nuts.run(10, 8);
            out.push((format!("nuts64.run seed={seed} chains={n_chains}"), h_t3(&s)));
        }
    }
    // ---- diagnostics and export on a deterministic array
    let mut a = Array3::<f32>::zeros((3, 41, 2));
    let mut s = 12345u64;
    for x in a.iter_mut() {
        s = s.wrapping_mul(6364136223846793005).wrapping_add(1442695040888963407);
        *x = ((s >> 40) as f32 / (1u64 << 24) as f32) * 4.0 - 2.0;
    }
    let (rhat, ess) = split_rhat_mean_ess(a.view());
    out.push(("stats.split_rhat".into(), h_f64s(rhat.iter().map(|x| *x as f64))));
    out.push(("stats.ess".into(), h_f64s(ess.iter().map(|x| *x as f64))));
    let bs = basic_stats("x", Array1::from(vec![3.0f32, f32::NAN, -1.0, 2.5, 0.0]));
    out.push(("stats.basic_stats".into(), h_f64s([bs.min, bs.median, bs.max, bs.mean, bs.std].iter().map(|x| *x as f64))));
    let a64 = a.mapv(|x| x as f64);
    let p = |n: &str| format!("{tmpdir}/digest.{}.{n}", std::process::id());
    if mini_mcmc::io::csv::save_csv(&a64, &p("csv")).is_ok() {
        out.push(("io.csv".into(), h_bytes(&std::fs::read(p("csv")).unwrap_or_default())));
    }
    if mini_mcmc::io::arrow::save_arrow(&a64, &p("arrow")).is_ok() {
        out.push(("io.arrow".into(), h_bytes(&std::fs::read(p("arrow")).unwrap_or_default())));
    }
    if mini_mcmc::io::parquet::save_parquet(&a64, &p("parquet")).is_ok() {
        out.push(("io.parquet".into(), h_bytes(&std::fs::read(p("parquet")).unwrap_or_default())));
    }
    for n in ["csv", "arrow", "parquet"] {
        let _ = std::fs::remove_file(p(n));
    }
    out
}
