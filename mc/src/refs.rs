//! Reference models (plain f64, deliberately boring).
#![allow(dead_code)]

/// Deterministic 64-bit LCG / splitmix used to build *fixed* structured input families
/// (verdict-irrelevant pseudo-randomness: every member is enumerated, none is sampled at run time).
#[derive(Clone)]
pub struct Lcg(pub u64);
impl Lcg {
    pub fn new(seed: u64) -> Self {
        Lcg(seed.wrapping_mul(0x9E3779B97F4A7C15).wrapping_add(0x1234567))
    }
    pub fn next_u64(&mut self) -> u64 {
        // splitmix64
        self.0 = self.0.wrapping_add(0x9E3779B97F4A7C15);
        let mut z = self.0;
        z = (z ^ (z >> 30)).wrapping_mul(0xBF58476D1CE4E5B9);
        z = (z ^ (z >> 27)).wrapping_mul(0x94D049BB133111EB);
        z ^ (z >> 31)
    }
    /// uniform in (0,1)
    pub fn unif(&mut self) -> f64 {
        ((self.next_u64() >> 11) as f64 + 0.5) / (1u64 << 53) as f64
    }
    /// standard normal (Box-Muller)
    pub fn normal(&mut self) -> f64 {
        let u1 = self.unif();
        let u2 = self.unif();
        (-2.0 * u1.ln()).sqrt() * (2.0 * std::f64::consts::PI * u2).cos()
    }
    pub fn below(&mut self, n: u64) -> u64 {
        self.next_u64() % n
    }
}

/// Sample array [chains][draws][params] (f32 values held as f32 — the type the diagnostics take).
pub type Arr3 = Vec<Vec<Vec<f32>>>;

pub fn arr3_dims(a: &Arr3) -> (usize, usize, usize) {
    let c = a.len();
    let n = if c > 0 { a[0].len() } else { 0 };
    let p = if n > 0 { a[0][0].len() } else { 0 };
    (c, n, p)
}

/// The 2c half-chains of parameter `p` (first half, last half; an odd middle draw is dropped).
pub fn half_chains(a: &Arr3, p: usize) -> Vec<Vec<f64>> {
    let (c, n, _) = arr3_dims(a);
    let half = n / 2;
    let mut out = Vec::with_capacity(2 * c);
    for ch in a.iter() {
        out.push(ch[..half].iter().map(|r| r[p] as f64).collect());
    }
    for ch in a.iter() {
        out.push(ch[n - half..].iter().map(|r| r[p] as f64).collect());
    }
    out
}

#[derive(Clone, Copy, Debug)]
pub struct SplitStats {
    pub w: f64,
    pub b: f64,
    pub varplus: f64,
    pub rhat: f64,
    pub n: usize,
    pub m: usize,
    /// max |half-chain mean| / sqrt(W): conditioning of an f32 evaluation
    pub cond: f64,
}

/// Split R-hat ingredients of one parameter; `ddof` is the divisor convention of the within-half
/// variance (0: divide by n, 1: divide by n-1) — the statement leaves it open.
pub fn split_stats(halves: &[Vec<f64>], ddof: usize) -> SplitStats {
    let m = halves.len();
    let n = halves[0].len();
    let means: Vec<f64> = halves.iter().map(|h| h.iter().sum::<f64>() / n as f64).collect();
    let vars: Vec<f64> = halves
        .iter()
        .zip(means.iter())
        .map(|(h, mu)| h.iter().map(|x| (x - mu) * (x - mu)).sum::<f64>() / (n - ddof) as f64)
        .collect();
    let w = vars.iter().sum::<f64>() / m as f64;
    let gm = means.iter().sum::<f64>() / m as f64;
    let b = n as f64 / (m as f64 - 1.0) * means.iter().map(|x| (x - gm) * (x - gm)).sum::<f64>();
    let varplus = (n as f64 - 1.0) / n as f64 * w + b / n as f64;
    let maxmean = means.iter().fold(0.0f64, |a, x| a.max(x.abs()));
    SplitStats { w, b, varplus, rhat: (varplus / w).sqrt(), n, m, cond: maxmean / w.sqrt() }
}

/// Biased (divisor n) autocovariance of one series at all lags, direct O(n^2).
pub fn autocov_direct(x: &[f64]) -> Vec<f64> {
    let n = x.len();
    let mu = x.iter().sum::<f64>() / n as f64;
    let c: Vec<f64> = x.iter().map(|v| v - mu).collect();
    (0..n)
        .map(|lag| (0..n - lag).map(|t| c[t] * c[t + lag]).sum::<f64>() / n as f64)
        .collect()
}

/// Result of the reference ESS. Geyer's cut `P_k <= 0` is discontinuous, so the reference returns a
/// *set* of admissible (tau, slack) candidates: one for the definitive cut (first pair sum below
/// -margin, or the end of the sequence) and one for every earlier pair sum inside (-margin, margin).
/// After a pair inside the margin the monotone clamp bounds every later term by `margin`, so
/// "cut there" with slack 2*margin*(remaining pairs) covers both resolutions of that cut.
#[derive(Clone, Debug)]
pub struct EssRef {
    pub cands: Vec<(f64, f64)>,
    pub mn: f64,
    pub n_pairs_summed: usize,
    pub ambiguous: bool,
}

/// Stan-style multi-chain ESS as the statement defines it:
/// rho_t = 1 - (W - mean_j acov_j(t)) / var+ ; P_k = rho_2k + rho_2k+1 ; initial positive, monotone;
/// tau = -1 + 2 sum P_k ; ESS = m n / tau.   `ddof` as in `split_stats` (acov rescaled consistently).
pub fn ess_ref(halves: &[Vec<f64>], ddof: usize, margin: f64) -> EssRef {
    let st = split_stats(halves, ddof);
    let n = halves[0].len();
    let scale = if ddof == 1 { n as f64 / (n as f64 - 1.0) } else { 1.0 };
    ess_ref_with(halves, st.w, st.varplus, scale, margin)
}

/// The same formula with W and var+ supplied by the caller (the `ess_from_chainstats` entry point takes them from
/// per-chain statistics: W = mean of the unbiased per-chain variances, var+ = B/n + (n-1)/n W with B/n the sample
/// variance of the chain means) and the autocovariances multiplied by `scale`.
pub fn ess_ref_with(halves: &[Vec<f64>], w: f64, varplus: f64, scale: f64, margin: f64) -> EssRef {
    struct St {
        w: f64,
        varplus: f64,
    }
    let st = St { w, varplus };
    let m = halves.len();
    let n = halves[0].len();
    let mut avg = vec![0.0f64; n];
    for h in halves {
        let ac = autocov_direct(h);
        for t in 0..n {
            avg[t] += ac[t] / m as f64;
        }
    }
    let rho: Vec<f64> = avg.iter().map(|a| 1.0 - (st.w - a * scale) / st.varplus).collect();
    let mut pairs = vec![];
    let mut t = 0;
    while t + 1 < n {
        pairs.push(rho[t] + rho[t + 1]);
        t += 2;
    }
    let kk = pairs.len();
    let tau_cut_at = |k: usize| -> f64 {
        let mut minp = if !pairs.is_empty() { pairs[0] } else { 0.0 };
        let mut out = 0.0;
        for p in pairs.iter().take(k) {
            let mut pt = *p;
            if pt > minp {
                pt = minp;
            }
            minp = pt;
            out += pt;
        }
        -1.0 + 2.0 * out
    };
    let mut cands = vec![];
    let mut ambiguous = false;
    let mut end = kk;
    for (k, p) in pairs.iter().enumerate() {
        if p.abs() < margin {
            ambiguous = true;
            cands.push((tau_cut_at(k), 2.0 * margin * (kk - k) as f64 + 2.0 * margin));
            continue;
        }
        if *p <= 0.0 {
            end = k;
            break;
        }
    }
    cands.push((tau_cut_at(end), 0.0));
    EssRef { cands, mn: (m * n) as f64, n_pairs_summed: end, ambiguous }
}

/// Order statistics helpers for summary checks.
pub fn sorted(v: &[f64]) -> Vec<f64> {
    let mut s = v.to_vec();
    s.sort_by(|a, b| a.partial_cmp(b).unwrap());
    s
}

pub fn mean(v: &[f64]) -> f64 {
    v.iter().sum::<f64>() / v.len() as f64
}

pub fn std1(v: &[f64]) -> f64 {
    let m = mean(v);
    (v.iter().map(|x| (x - m) * (x - m)).sum::<f64>() / (v.len() as f64 - 1.0)).sqrt()
}
