//! Reference models (plain f64, deliberately boring).
#![allow(dead_code)]
