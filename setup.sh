#!/bin/sh
# Offline build of the harness (MANIFEST.setup_cmd). Uses only the local cargo cache.
DIR=$(cd "$(dirname "$0")" && pwd)
export CARGO_NET_OFFLINE=true
mkdir -p "$DIR/.scratch" "$DIR/evidence" "$DIR/replays"
cd "$DIR/mc" && cargo build --release --offline
