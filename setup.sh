#!/bin/sh
# Offline build of the harness (MANIFEST.setup_cmd). Uses only the local cargo cache.
# Also builds `plain` (the digest grid against /repo WITHOUT the verif feature) and checks that the hooks-on build that
# every check uses behaves bit-identically on that grid (hooks are pass-throughs): writes hooks_transparency.json.
DIR=$(cd "$(dirname "$0")" && pwd)
export CARGO_NET_OFFLINE=true
export VERIF_DIR="$DIR"
mkdir -p "$DIR/.scratch" "$DIR/evidence" "$DIR/replays"
cd "$DIR/mc" && cargo build --release --offline || exit 2
cd "$DIR/plain" && CARGO_TARGET_DIR="$DIR/mc/target" cargo build --release --offline || exit 2
"$DIR/mc/target/release/mc" HOOKS "$DIR/mc/target/release/plain" || exit 2
