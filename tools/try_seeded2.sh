#!/bin/sh
# usage: try_seeded2.sh <patch> <tier> <ID> [<ID>...]   like try_seeded.sh, but evidence/replays go to .scratch/t so the
# committed evidence is not overwritten. Applies patch to /repo, rebuilds mc, runs the checks, reverts.
P=$1; TIER=$2; shift 2
DIR=/verif; T=$DIR/.scratch/t
git -C /repo diff --quiet || { echo "/repo not clean"; exit 2; }
rm -rf $T; mkdir -p $T/evidence $T/replays $T/.scratch; cp -r $DIR/tla $DIR/known_findings.json $T/
git -C /repo apply "$P" || { echo "patch does not apply"; exit 2; }
if (cd $DIR/mc && cargo build --release --offline >$DIR/.scratch/try.build.log 2>&1); then
for ID in "$@"; do
  VERIF_DIR=$T $DIR/mc/target/release/mc $ID $TIER >$DIR/.scratch/try.$ID.log 2>&1; RC=$?
  echo "CHECK $ID exit=$RC $(grep -c '^VIOLATION' $DIR/.scratch/try.$ID.log) violation lines; keys: $(grep -o 'key=[^ ]*' $DIR/.scratch/try.$ID.log | sort | uniq -c | head -5 | tr '\n' ';')"
done
else echo "BUILD FAILED"; tail -20 $DIR/.scratch/try.build.log; fi
git -C /repo checkout -- .
(cd $DIR/mc && cargo build --release --offline >/dev/null 2>&1)
