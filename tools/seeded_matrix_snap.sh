#!/bin/sh
# usage (inside `vp run --with-repo -- ./tools/seeded_matrix_snap.sh <ID>...`): runs every kept seeded change of the
# given properties (only those numbered >= $MINK when that variable is set) against the quick tier of its check, on the run's own snapshots of /verif and /repo (so /repo itself
# stays untouched). One line per change: "<name> :: CHECK <ID> exit=<rc> ... keys: ..."
DIR=$(cd "$(dirname "$0")/.." && pwd)
[ -n "$VP_RUN_REPO" ] || { echo "needs a --with-repo run"; exit 2; }
sed -i "s#path = \"/repo\"#path = \"$VP_RUN_REPO\"#" $DIR/mc/Cargo.toml $DIR/plain/Cargo.toml
mkdir -p $DIR/.scratch
for ID in "$@"; do
  for D in $DIR/seeded/$ID-*/; do
    N=$(basename $D)
    K=${N##*-}; [ -n "$MINK" ] && [ "$K" -lt "$MINK" ] && continue
    git -C $VP_RUN_REPO apply $D/patch.diff 2>/dev/null || { echo "$N :: patch does not apply"; continue; }
    $DIR/check.sh $ID quick >$DIR/.scratch/m.$N.log 2>&1; RC=$?
    echo "$N :: CHECK $ID exit=$RC $(grep -c '^VIOLATION' $DIR/.scratch/m.$N.log) violation lines; keys: $(grep -o 'key=[^ ]*' $DIR/.scratch/m.$N.log | sort | uniq -c | head -6 | tr '\n' ';')"
    git -C $VP_RUN_REPO checkout -- .
  done
  # and the clean tree must be quiet again
  $DIR/check.sh $ID quick >$DIR/.scratch/m.$ID.clean.log 2>&1; echo "$ID-clean :: exit=$? $(grep "^\[$ID\] tier" $DIR/.scratch/m.$ID.clean.log | cut -c1-160)"
done
