#!/usr/bin/env python3
"""Regenerates /verif/MANIFEST.json from the table below (edit the table, run, commit)."""
import json, os, subprocess
ROOT = os.path.dirname(os.path.dirname(os.path.abspath(__file__)))

BASELINE_OFF = ("cd /repo && cargo nextest run --workspace --no-fail-fast --test-threads 8 --offline "
                "|| (cd /repo && cargo test --workspace --no-fail-fast --offline)")

# id -> (engine, category, technique, level text, level note, design ref)
CHECKS = {
 "C01": ("E1/E4", "model_checking",
         "exhaustive enumeration of the acceptance draw (all 2^24 f32 variates, injected through the public generator) and of a table alphabet of log-density / proposal-density values on the real step(); explicit finite kernels with exactly measured acceptance probabilities",
         "Step level: all 1225 combinations of (log p(x), log p(y), log q(y|x), log q(x|y)) over {ln1,ln2,ln3,-745,-inf,+inf,NaN}^2 x {0,ln1/2,ln1/4,-inf,NaN}^2 for state types i32/f32/f64 (incl. -0.0, NaN-payload and subnormal encodings of x) and float types f32/f64, with u at 0, the exact accept/reject threshold and its 3 neighbours either side, 1-ulp; the chain ends at y iff ln u < ratio (IEEE semantics), else bit-identical to x. For f32 every one of the 16,777,216 variates is executed for 9 ratio classes. Kernel level: on finite spaces (K=2 quick, 2..4 thorough; symmetric, asymmetric, one-directional proposals, zero-probability states) A(x,y) is measured exactly as #accepting variates / 2^24 for every proposable pair and detailed balance / pi P = pi are checked.",
         "Draw injection through the public `rng` field with a crafted xoshiro state; the premise (a step consumes exactly that output) is verified on every execution and its failure is a machinery error, not a verdict.",
         "DESIGN.md §3 C01"),
 "C02": ("E1", "model_checking",
         "exhaustive enumeration of the draws of the real HMC::step (momenta and acceptance uniforms injected through taps) over small alphabets with decision-boundary values, against an f64 velocity-Verlet reference; exact decision oracle on the implementation's recorded operands",
         "For a grid of targets (DiffableGaussian2D, Rosenbrock2D, RosenbrockND, matmul Gaussians of dim 3/8/16, Student-t, quartic) x step sizes {1e-3,0.1,0.9,2.5,1e3} x L {0,1,2,3,8,64} x n_chains {1,2,3,32} x backends NdArray<f32>/<f64>: momenta per coordinate from {-2,-0.5,0,0.5,2} (full product for n*D <= 3-4, else <= 1-2 deviating coordinates) and per-row acceptance draws at {1e-30, one ulp below / at / above exp(H-H') as recorded by the implementation, 1-ulp}. On every step: (i) the row ends at the recorded proposal iff recorded ln u <= recorded H-H', else bit-identical to its previous position; (ii) proposal, momentum and energy difference equal L velocity-Verlet steps in f64 (tolerance scaled by the measured error amplification of the trajectory); (iii) each row of a batch equals the same (x,p,u) run alone; (iv) integrating from (x',-p') returns to (x,-p); (v) all {accept,reject}^3 three-step histories, each step checked from the actual current position.",
         "Tolerances: f64 backend 1e-11*scale*(L+1)*amplification, f32 backend 1e-3 (burn's f32 kernels differ between SIMD lanes); unstable trajectories (reference magnitude > 1e6 or amplification > 1e6) are compared on decision logic only and counted.",
         "DESIGN.md §3 C02"),
 "C03": ("E1", "model_checking",
         "stateless DFS over the injected draws (choice vectors) of the real NUTSChain::step under a deviation bound; every recorded transition is replayed by an independent iterative Algorithm 6 on the implementation's own recorded operands",
         "Every random draw of a transition (momentum, slice variate, direction per doubling, merge uniform at every internal tree node, accept uniform per doubling) is a choice from a small alphabet that contains the exact decision thresholds (n''/(n'+n''), min(1,n'/n)) and their neighbours; all choice vectors with <= 0-2 (quick) / 0-3 (thorough) deviations from the defaults are executed per base configuration (7-9 targets x 2-3 starts x 5-6 step sizes, tree depths 0..8+, divergent and U-turning trajectories; bound chosen per configuration so that the enumeration completes). The hook trace of each execution (every leaf with position, momentum, joint, n', s'; every merge; every doubling) is walked by an iterative Algorithm 6: slice test, divergence test (1000), subtree bookkeeping, candidate selection with the drawn uniforms, U-turn termination, top-level adoption, next state bit-identical to the selected trajectory point, acceptance statistic over the last doubling; each leaf must be one f64 leapfrog step from the trajectory's end.",
         "Conventions Algorithm 6 leaves open are not pinned (direction half, drawing the accept uniform when s'=0, slice parametrisation). U-turn products inside the rounding margin make a transition 'ambiguous' (followed, not judged; counted, guard <= 2 %).",
         "DESIGN.md §3 C03"),
 "C04": ("E3/E1", "model_checking",
         "exploration of ALL histories of run(n_collect,n_discard) calls on one real NUTS chain with a recurrence oracle evaluated on the adaptation state recorded after every transition",
         "All sequences of <= 2 (quick) / 3 (thorough) run calls over {(1,0),(2,1),(3,2),(2,5),(1,12)} plus long warm-ups (0..2000) for 3 targets x requested acceptance {0.6,0.8,0.95} x seeds, f64 and f32 scalars. After EVERY transition the recorded (m, eps, eps_bar, H-bar, mu) must follow Nesterov dual averaging (gamma 0.05, t0 10, kappa 0.75) from the previously observed state and the transition's own alpha/n_alpha while m <= n_discard, and afterwards eps == eps_bar bit for bit and never change; the trajectory must use the current step size; the counter persists across runs; eps0 must equal one of the two published variants of the doubling/halving heuristic computed from the same start and initial momentum, mu = ln(10 eps0) in the first run.",
         "The clause 'realised acceptance close to requested' is statistical: fixed enumerated grid (Gaussians D=1..5, delta {0.6,0.8,0.9}, seeds 0..7, warm-up 1000) with a +-0.15 band, declared non-generalising. Histories in which one transition needs more than 2^13 leapfrog steps (resumed adaptation driving eps to ~1e-8) are cut off and reported as caps.",
         "DESIGN.md §3 C04"),
 "C05": ("E1/E4", "model_checking",
         "explicit-state construction of the exact one-sweep kernel by enumerating EVERY outcome sequence of the real step() (scripted conditional) + list-model check of the call log for every dimension 1..64",
         "(a) A recording conditional logs (index, copy of the state it was given) and returns a fresh unique value; for every dimension 1..64, 1-3 steps, f64 (incl. NaN/-0/inf states), f32, i32 and 2-4 chains through GibbsSampler::run the log must equal the list model (each coordinate once, in order, freshest state, nothing else changed). (b) For finite joints (all 255 weight tables over {0..3} on {0,1}^2, structured tables with zeros on {0,1}^3, {0,1,2}^2, thorough also {0,1}^4, {0,1,2}^3) every outcome sequence of one sweep from every positive-probability state is executed on the real chain with its exact probability, giving the exact kernel P; pi P = pi is checked to 1e-12.",
         "User conditionals are harness types (the library has no randomness of its own in a Gibbs step).",
         "DESIGN.md §3 C05"),
 "C07": ("E2/E4", "model_checking",
         "controlled scheduler (E2) enumerating all chain-level interleavings of 2-3 concurrently running samplers under a deviation bound, on the real code with real OS threads; enumerated seed/pool-size grids",
         "(a) 2-3 OS threads each run a real chain/sampler (MH, Gibbs, HMC, NUTS in same-kind and mixed combinations); scheduling points sit at every user callback (target / conditional evaluation), one thread runs at a time, and ALL schedules with <= 1-2 (quick) / 2-3 (thorough) deviations from run-to-completion are executed; each thread's draws must equal, bit for bit, the same sampler run alone. (b) run() inside private rayon pools of sizes 1..16 equals the stack of chains run alone. (c) seeds {0,1,41,42,2^32,u64::MAX-1,u64::MAX} x {1,3} chains x six sampler configurations built twice are bit-identical, distinct seeds differ, run_progress returns run's draws.",
         "Sequentially consistent interleavings at callback granularity (the library has no unsafe/atomics of its own); rayon's internal scheduling in (b) is free-running. Replay determinism of schedules is checked on every configuration.",
         "DESIGN.md §3 C07"),
 "C08": ("E4", "model_checking",
         "exhaustive enumeration of the (n_chains, seed, construction mode) configuration grid with pairwise stream-distinctness oracles on generators, recorded draws and trajectories of the real samplers",
         "For every n_chains 2..64 (thorough; quick {2,3,8,64}) x seeds {unseeded,0,1,42,2^32,u64::MAX-40,u64::MAX-1,u64::MAX}, with all chains started from one common state: MH (library proposal): proposal generators, first proposals, acceptance generators and 64-step trajectories pairwise distinct; MH with a user-defined seedable proposal: acceptance generator never equal to the proposal generator of the same chain, proposal generators pairwise distinct; HMC: recorded momentum rows and acceptance uniforms of every step pairwise distinct across rows, trajectories distinct; NUTS: trajectories pairwise distinct.",
         "Unseeded construction uses OS entropy (not owned by the harness); oracle is value-insensitive pairwise inequality (collision probability ~2^-64).",
         "DESIGN.md §3 C08"),
 "C09": ("E3", "model_checking",
         "exploration of ALL histories of run(n_collect,n_discard) calls (prefix tree over a cloned counting sampler) against a counter model; differential continuation oracle on the real MH / Gibbs / HMC / NUTS samplers",
         "(A) a user-defined counting MarkovChain under ChainRunner::run for n_chains {1,2,3,5,8,32} x dim {1,2,16}: every history of <= 2 (quick; 3 over a reduced alphabet) / 3 (thorough) run calls with n_collect, n_discard in 0..6; shape, row<->initial state, entry k = state after exactly n_discard+k+1 transitions, not one transition more, continuation. (B) MH, Gibbs, HMC: run(a,d); run(b,0) == run(a+b,d) == manual stepping, bit for bit, all a,b,d <= 2 (quick) / 3 (thorough), 1 and 3 chains, sampler left at the last returned state. (C) NUTSChain: row k = recorded position after n_discard+k transitions, exactly n_collect+n_discard-1 transitions, next run starts from the last row; NUTS::run == its chains run individually for 1..8 chains.",
         "NUTS per-transition positions come from the verif record hook 'nuts.end'.",
         "DESIGN.md §3 C09"),
 "C10": ("E2/E5/E3", "model_checking",
         "controlled scheduler (E2) enumerating all schedules of the REAL run_progress threads (worker transitions, reporter iterations, stats-timer firings) under a deviation bound; explicit-state abstract reporter model for every N=1..48 with conformance replay of model paths on the real reporter; exhaustive fault-point enumeration",
         "Layer 1: the real ChainRunner::run_progress and NUTS::run_progress run on real OS threads serialised at hook points; every schedule with <= 1-2 (quick) / 2-4 (thorough) deviations from the default is executed for N = 1..3 chains (and 6), plus the arrival-order reduction for N in {5,6,7,11,16,48}; each execution must return, give run's draws bit for bit (NUTS: shifted by one), diagnostics equal to RunStats::from(draws), and the reporter must exit within ceil(N/5)+3 iterations after the last worker (else: hang). Layer 2: BFS of the abstract reporter (slots, next_active, n_finished) with chain identities for N <= 9/12 and as a quotient for every N = 1..48: invariants, progress, bounded exit from every state; model paths (all for N <= 4/6, transition cover for larger N incl. 48) are replayed on the real reporter and compared iteration by iteration through the observe hook; the model itself is cross-checked by TLC on a TLA+ transcription (same invariants, termination under weak fairness, equal reachable-state counts). Layer 3: the statistics receiver dropped before the call, after transition k for every k, after the call (with and without a send at every step); reporter killed at iteration 0..2; precision grid T x backend for HMC and NUTS, MH/Gibbs with 1..12 chains.",
         "Sequentially consistent interleavings at hook granularity; time replaced by choices (sleep = yield, 1 s timer = binary choice). Arrival-order reduction argued in DESIGN C10. One session per process (single-threaded exploration).",
         "DESIGN.md §3 C10"),
 "C11": ("E4", "model_checking",
         "bounded-exhaustive input enumeration (all arrays over a 4-letter alphabet for small shapes) + enumerated structured families, against an independent f64 reference and metamorphic oracles",
         "Every array over {-1,0,1,2} of the listed small shapes (quick 1.4e5, thorough 3.5e7 arrays) and every member of fixed structured families up to 16 chains x 5000 draws x 8 parameters is evaluated on the real split_rhat_mean_ess / RunStats / basic_stats and compared with sqrt(var+/W) computed in f64 on the half-chains (either variance-divisor convention, but one and the same on all inputs), plus lower bound, separation ladder, affine/permutation/other-parameter invariance and the run-summary order statistics incl. NaN robustness at every subset of positions.",
         "Large shapes are covered by enumerated families, not exhaustively; comparison tolerance 3e-5 + 6*eps32*cond relative because the diagnostics are computed in f32.",
         "DESIGN.md §3 C11"),
 "C12": ("E4", "model_checking",
         "bounded-exhaustive input enumeration + enumerated structured families against an f64 Stan-style ESS reference with direct O(n^2) autocovariance; set-valued reference at Geyer cuts inside the rounding margin; differential check across the brute-force/FFT switch",
         "Same input spaces as C11. The compared quantity is tau = M*N/ESS (ESS itself is ill-conditioned near tau=0). Half-lengths 99/100/101/128/129/150 exercise both autocovariance algorithms on the same kind of series, paddings 256..8192 are crossed; affine, permutation and time-reversal invariance are checked on members whose cut is unambiguous; sanity bands on fixed iid / AR(1) members.",
         "Geyer's cut is discontinuous: pair sums within 2e-5 of zero make the reference set-valued (counted in the evidence). Bands are non-generalising.",
         "DESIGN.md §3 C12"),
 "C13": ("E3/E4", "model_checking",
         "breadth/depth-first exploration of ALL tracker update histories over a 3-letter value alphabet (prefix tree over the real, cloned trackers) with batch-statistics and EMA recurrence oracles after every update; enumerated long histories",
         "Every sequence of updates over values {0,1,3} for 2 chains x 1..2 params (and 3 chains x 1) up to depth 3-4 (quick, 2.3e6 histories) / 4-6 (thorough, 4.7e7) is applied to the real ChainTracker / MultiChainTracker; after EVERY update count, mean, unbiased variance, the EMA recurrence p_k = 0.99 p_{k-1} + 0.01 [moved], collect_rhat vs the classical formula on the trackers' own stats (1e-5) and vs MultiChainTracker::rhat and the batch truth are checked. Long MH-like histories (to 5000 updates, 16 chains, 8 params, f32/f64/i32/u8) are enumerated families.",
         "The EMA's initial value and the multi-chain combination of indicators are left open by the statement (only range/monotonicity demanded). f32 running moments: tolerance c*eps32*max|x|^2*(1+ln n).",
         "DESIGN.md §3 C13"),
 "C14": ("E1", "model_checking",
         "invariant checking on every transition of exhaustively enumerated executions: scripted candidates x acceptance draws (MH), injected momenta/uniforms over alphabets with overflowing step sizes (HMC), deviation-bounded choice exploration of the real NUTS transition on targets with bounded support and NaN regions",
         "After every transition of every explored execution the state must be bit-identical to the previous one or have finite coordinates and a finite log-density under the harness's own copy of the target; no panic; NUTS transitions must end within 2^12 leapfrog steps. MH: 5 bounded-support / NaN-region targets x 12 starts x 17 candidates (outside the support, boundary, +-inf, NaN, 1e308) x symmetric/asymmetric proposal x 4 acceptance draws. HMC: {Gamma(2,1) = ln x - x, sqrt-domain, box, quartic, Student-t} x step sizes {0.1,1,10,1e10,1e30,MAX} x L {1,3} x 7x7 momenta incl. +-1e3 x u {1e-30,1/2,1-ulp}, two consecutive steps, both backends. NUTS: all choice vectors with <= 1-3 deviations (momenta incl. +-1e3, slice variate, directions, merge/accept uniforms) on {Gamma, sqrt-domain, box, quartic, funnel} x 2 starts x step sizes up to overflow, plus whole runs incl. the step-size search from starts next to the support boundary.",
         "u = 0 is excluded by the statement. Targets are harness types whose out-of-support value is -inf or NaN (natural targets).",
         "DESIGN.md §3 C14"),
 "C15": ("E4", "exploration",
         "enumeration of a finite parameter/point lattice through the real density, gradient and proposal functions against closed-form f64 definitions",
         "The domain is continuous, so this is exploration over a finite lattice, not model checking: 2-4 means x 5 SPD covariances (cond to 1e4, rotated) x 7x7 points x batch sizes {1,2,3,64} x scalar types {f32,f64} x backends {NdArray<f32>,NdArray<f64>} for Gaussian2D / DiffableGaussian2D (normalised vs unnormalised constant, batched vs single row by row, autodiff gradient = Sigma^-1(mu-x)); Rosenbrock2D/ND values and analytic gradients; IsotropicGaussian logp = -d/2 ln(2 pi s^2) - |d|^2/2s^2, symmetry, integral of exp(logp) = 1 (d=1,2), sample() as a location-scale family of one seeded base stream, set_seed reproducibility.",
         "That the base noise is standard normal is trusted (rand_distr). Tolerances are f32-level and scaled by the magnitude of the summed terms and the cancellation factor of the 2x2 determinant.",
         "DESIGN.md §3 C15"),
 "C16": ("E4/E1", "model_checking",
         "exhaustive enumeration of the uniform variate (all 2^24 f32 outputs injected at the real sample() through a tap) for a set of weight vectors, boundary-variate probes for every weight vector of the alphabet",
         "For every weight vector over {0..7} of length <= 5 (quick) / 6 (thorough) and zero-block families up to length 64, in f32 and f64: normalisation, logp, and sample() at the boundary variates {0, one grid unit, every cumulative sum +-3 units, 1-ulp} with range, p>0, interval-membership and monotonicity oracles. For the sweep set (all short vectors, the rounding-critical vectors whose f32 cumulative sum stays at or below the largest variate, zero-block families) EVERY one of the 16,777,216 f32 variates is fed to the real sample(): index in range, never a zero-probability category, monotone, per-category count/2^24 = p_i within (len+1)*2^-24.",
         "The variate is injected through the verif tap 'categorical.r' (premise self-checked; failure = exit 2). f64: boundary probes only are exhaustive over their set; the 2^20 strided sweep is declared non-exhaustive. Generator uniformity is trusted.",
         "DESIGN.md §3 C16"),
 "C17": ("E4", "model_checking",
         "bounded-exhaustive enumeration of every shape of the statement's box with position-coded contents through all save entry points, files re-read with independent standard readers",
         "All 2583 shapes 0..6 x 0..40 x 0..8 (thorough; quick: the 0..3 x 0..6 x 0..3 sub-box plus far corners) with every cell distinct, through save_csv<f64|f32|i32|usize>, save_csv_tensor, save_arrow<f64|f32|i32>, save_parquet<f64|f32|i32>, save_parquet_tensor<f32|f64>; 13 special values (+-0, subnormals, +-MAX, +-inf, NaN, 1/3) in every cell of four small shapes; error paths (missing directory, directory as path, empty path). Oracle: header/schema, one row per cell, documented labels for the documented axis order, values bit-exact after widening (CSV: parses back equal, NaN<->NaN); Err never a panic.",
         "Readers are the csv/arrow-ipc/parquet crates of the locked versions. Read-only-file error path not exercised (root). A save returning Err is counted, not a violation.",
         "DESIGN.md §3 C17"),
 "C18": ("E4", "model_checking",
         "bounded-exhaustive input enumeration of the real helpers against purity/prefix/shape oracles",
         "Every (n,d) of the statement's own bounded domain (thorough: the full 0..256 square; quick: an 8x8 sub-grid) x 5 seeds x f32/f64 is evaluated on the real helpers; shape, finiteness, purity, init_det==seed 42, the prefix property and seed sensitivity are decided on each. The enumeration is complete within the stated grid, which is the right level for a pure function of three small integers.",
         "The normal law of the draws is trusted to rand_distr/SmallRng (only a fixed 5-sigma moment band is checked). init() (OS entropy) is checked for shape/finiteness only.",
         "DESIGN.md §3 C18"),
}

NOT_APPLICABLE = {
 "C06": "Statement about the law of Monte-Carlo averages over all seeds: no bounded space whose exhaustive enumeration decides it (2^64 seeds x unbounded run length); fixed-seed moment tests would be sampling, a different family. Decidable parts are claimed under C01/C05 (exact finite kernels), C02/C03 (role of every draw), C08 (stream distinctness). See DESIGN.md §4.",
}
# additions made in later rounds (appended to the level text)
EXTRA = {
 "C01": " The generator word behind each injected variate also varies in the bits the uniform conversion discards (zeros, ones, rounding tie, just below the tie at step level; all ones in the full sweeps). Histories of <= 3-4 operations {step, assign current_state, replace target} and variable-length candidates are enumerated as well. Pairs (x, y) equal under PartialEq but different in bits (+0.0 / -0.0) are enumerated with a bit-pattern-sensitive target and proposal.",
 "C02": " Negative step sizes (-0.1, -0.9). Field-mutation histories: positions (same shape and one more row), step_size, n_leapfrog re-assigned between two steps.",
 "C03": " Also NUTSChain<f32, Autodiff<NdArray<f64>>> (scalar type narrower than the backend float) on a reduced plan. Slice variates up to 1e6 (leaves with energy error in [1000, 1000+e) are not divergent), NaN-region targets, relocate-then-step histories, trees of depth 11-13.",
 "C04": " Requested acceptance statistics over the whole stated range (0.51 ... 0.985). Step-size search cases with forced initial momenta next to support boundaries and on Gaussians of sd 1e-5 / 1e4 / 1e5 (more than 10 halvings / doublings), non-termination caught by an evaluation budget in the harness targets.",
 "C05": " Histories: current_state re-assigned (same length, longer, shorter) between sweeps; two consecutive runs (run;run, run;run_progress) in which the recording conditional's own counter must continue; fault points (conditional panics at call k); conditionals answering NaN / -0.0 / +-inf and conditionals whose first sweeps reproduce the current state exactly.",
 "C07": " All 64 single-bit flips of the base seeds 0 and 42 give pairwise different output per sampler; constructions from library proposals that were used 0/1/70 times before agree bit for bit after seed(); run_progress vs run for 1-, 2- and 3-chain samplers.",
 "C08": " Every chain's proposal generator is also compared with every other chain's acceptance generator; library proposal streams for all single-bit flips of seed 42 are pairwise distinct; library proposals used 1/70 times before construction; HMC batches of 2048-4100 chains and batches installed through the public positions field of a one-chain sampler. A declared FREE-RUNNING supplement (16 real threads constructing default samplers; schedules sampled, not enumerated) covers races between constructors, which contain no scheduling point.",
 "C10": " User chains with finite f64 draws of magnitude 1e39 / 1e300 (outside the f32 range of the statistics side). Long runs: the per-chain tracker's count is exact across 2^24 updates (premise 'final message carries n = total' of the reporter model); thorough: a real run_progress of 2^24+8 transitions.",
 "C09": " Mixed-precision HMC (f32 scalars on an f64 backend) in the continuation check. NUTS::run versus its chains over (chains, pool workers) configurations on both sides of chains > workers.",
 "C11": " Every family member <= 1023 draws and every array of the small exhaustive shapes is evaluated again as Fortran-ordered array, two axis-permuted views and a reversed strided view (split_rhat_mean_ess and RunStats::from).",
 "C12": " Every family member <= 600 draws and the smallest exhaustive shapes again in four other memory layouts. The ess_from_chainstats entry point on the exhaustive shapes with >= 2 chains and the families.",
 "C13": " f64 trackers are built from the f64 initial state and all histories over the not-f32-representable values {0.1, 1/3, 0.7} are explored. MultiChainTracker::max_rhat equals the maximum of rhat() after every update.",
 "C14": " HMC batches of 1, 2 (and 3) chains. The NUTS deviation bound is chosen per configuration so that the enumeration completes; trees whose leaves are all valid but exceed the leaf limit (2^12 for eps >= 0.3, 2^17 below) are reported cut-offs, a hang verdict needs growth after an invalid leaf. The initial step-size search is explored alone under every initial momentum of an alphabet (7 targets x 2 starts next to the boundary), non-termination caught by an evaluation budget inside the harness targets.",
 "C15": " All 4-operation histories over {sample d=1/3/70, set_seed(1), set_seed(2), clone}: draws after the last set_seed equal a fresh seeded proposal's.",
 "C17": " Histories: two saves to one path (larger then smaller and the reverse); a failed save followed by a successful save per entry point; the full-device error path uses a private character device 1:7 in the scratch directory, never a system node.",
 "C18": " Unseeded init() on four threads started one after the other. Tail-occupancy band (beyond 1/2/3/4 sd, 6-sd binomial bands) on the pooled 256x256 blocks of seeds 0..39 (declared non-generalising); all single-bit flips of seeds 0 and 42 give pairwise different blocks.",
}
UNDER_CONSTRUCTION = "check not built yet in this revision (planned, see DESIGN.md §3); not claimed until its command exists"

def main():
    props = [json.loads(l)["id"] for l in open(os.path.join(ROOT, "properties.jsonl"))]
    hooks_commits = subprocess.run(["git", "-C", "/repo", "log", "--format=%H %s"], capture_output=True, text=True).stdout.splitlines()
    hook_shas = [l.split()[0] for l in hooks_commits if l.split(" ", 1)[1].startswith("verif:")]
    checks = []
    for pid in props:
        if pid not in CHECKS:
            continue
        eng, cat, tech, text, note, ref = CHECKS[pid]
        checks.append({
            "property_id": pid,
            "quick_cmd": f"./check.sh {pid} quick",
            "thorough_cmd": f"./check.sh {pid} thorough",
            "evidence_file": f"/verif/evidence/{pid}.json",
            "replay_cmd_template": f"./check.sh {pid} --replay {{path}}",
            "engine": eng,
            "level_claimed": {"category": cat, "text": text + EXTRA.get(pid, ""), "design_ref": ref},
            "level_note": note,
            "technique": tech,
        })
    na = []
    for pid in props:
        if pid in CHECKS:
            continue
        na.append({"property_id": pid, "reason": NOT_APPLICABLE.get(pid, UNDER_CONSTRUCTION)})
    m = {
        "version": 1,
        "setup_cmd": "./setup.sh",
        "hooks": {
            "guard": "cargo feature `verif` of mini-mcmc (off by default; not in `default`)",
            "enable": "the harness crate /verif/mc depends on mini-mcmc by path (/repo) with features [verif, csv, arrow, parquet]; ./check.sh rebuilds it from /repo's working tree on every call",
            "baseline_off_cmd": BASELINE_OFF,
            "source_commits": hook_shas,
            "add_only": True,
        },
        "engines": [
            {"name": "E1", "path": "mc/src/e2.rs (fn explore) + mc/src/props/nutsref.rs (choice scripts)", "serves_properties": ["C01", "C02", "C03", "C04", "C05", "C14", "C16"], "kind_free_text": "stateless DFS over injected random draws (choice vectors) of the real kernels, deviation-bounded"},
            {"name": "E2", "path": "mc/src/e2.rs", "serves_properties": ["C07", "C10"], "kind_free_text": "controlled scheduler serialising the real std threads at hook points; DFS over interleavings/timer/poll choices under a deviation bound"},
            {"name": "E3", "path": "mc/src/props", "serves_properties": ["C04", "C09", "C10", "C13"], "kind_free_text": "BFS over operation histories, fresh real object per node, list/recurrence reference"},
            {"name": "E4", "path": "mc/src/props", "serves_properties": ["C08", "C11", "C12", "C13", "C15", "C16", "C17", "C18"], "kind_free_text": "bounded-exhaustive input enumeration against f64 reference implementations"},
            {"name": "E5", "path": "mc/src/props/c10.rs", "serves_properties": ["C10"], "kind_free_text": "explicit-state abstract reporter model with conformance replay on the implementation"},
        ],
        "checks": checks,
        "not_applicable": na,
        "notes": "All checks are one Rust binary (mc) built by setup.sh / check.sh from /repo's working tree. setup.sh also builds /verif/plain (the same digest grid against /repo WITHOUT feature verif) and `mc HOOKS` checks hooks-on == hooks-off on it (hooks_transparency.json). Exit 0 = held on everything explored, 1 = VIOLATION line, 2 = machinery failure (never a verdict). Known findings: /verif/known_findings.json.",
    }
    json.dump(m, open(os.path.join(ROOT, "MANIFEST.json"), "w"), indent=1)
    print("wrote MANIFEST.json with", len(checks), "checks;", len(na), "not_applicable")

if __name__ == "__main__":
    main()
