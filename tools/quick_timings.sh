#!/bin/sh
# Runs the QUICK tier of every claimed check with the evidence redirected to a scratch directory (so that the committed
# evidence, which comes from the thorough tier, is not overwritten) and leaves one log per check for budget_table.py.
DIR=$(cd "$(dirname "$0")/.." && pwd)
Q=$DIR/.scratch/q
rm -rf $Q; mkdir -p $Q/evidence $Q/replays $Q/.scratch
cp -r $DIR/tla $DIR/known_findings.json $Q/
cd $DIR/mc && cargo build --release --offline >/dev/null 2>&1 || exit 2
for ID in $(python3 -c "import json; print(' '.join(c['property_id'] for c in json.load(open('$DIR/MANIFEST.json'))['checks']))"); do
  S=$(date +%s); VERIF_DIR=$Q $DIR/mc/target/release/mc $ID quick >$DIR/.scratch/all.$ID.quick.log 2>&1; RC=$?; E=$(date +%s)
  echo "$ID quick exit=$RC wall=$((E-S))s $(grep "^\[$ID\] tier" $DIR/.scratch/all.$ID.quick.log | cut -c1-200)"
done
