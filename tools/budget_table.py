#!/usr/bin/env python3
"""Prints the measured quick/thorough table for DESIGN.md §8 from the last run_all logs (.scratch/all.<ID>.<tier>.log)."""
import json, re, os, sys
D = os.path.dirname(os.path.dirname(os.path.abspath(__file__)))
m = json.load(open(f"{D}/MANIFEST.json"))
def row(pid, tier):
    p = f"{D}/.scratch/all.{pid}.{tier}.log"
    if not os.path.exists(p):
        return None
    for l in open(p, errors="replace"):
        mm = re.match(r"\[%s\] tier=%s evaluations=(\d+) states=(\d+) transitions=(\d+) traces=(\d+) distinct=(\d+) violations=(\d+) \(known \d+\) wall=([\d.]+)s exhaustive=(\w+)" % (pid, tier), l)
        if mm:
            return mm.groups()
    return None
def fmt(n):
    n = int(n)
    return f"{n:.2e}".replace("e+0", "e").replace("e+", "e") if n >= 100000 else str(n)
print("| prop | engine / level | quick: evaluations · states · transitions · wall | thorough: evaluations · states · transitions · wall |")
print("|---|---|---|---|")
for c in m["checks"]:
    pid = c["property_id"]
    cells = []
    for tier in ("quick", "thorough"):
        r = row(pid, tier)
        cells.append("—" if r is None else f"{fmt(r[0])} · {fmt(r[1])} · {fmt(r[2])} · {float(r[6]):.0f} s" + ("" if r[7] == "true" else " (caps reported)"))
    print(f"| {pid} | {c.get('engine','') + ' / ' + c.get('level_claimed',{}).get('category','')} | {cells[0]} | {cells[1]} |")
