#!/bin/sh
# usage: keep_seeded.sh <worktree> <k> <ID>    copies a CONFIRMED change into /verif/seeded/<ID>-<k>/
WT=$1; K=$2; ID=$3; OFF=${4:-0}
D=/verif/seeded/$ID-$((K+OFF))
mkdir -p $D
cp $WT/OUT/patch$K.diff $D/patch.diff
cp $WT/OUT/demo$K.rs $D/demo.rs
python3 - "$WT" "$K" "$ID" "$D" <<'PY'
import json, sys
wt, k, pid, d = sys.argv[1:5]
m = json.load(open(f"{wt}/OUT/meta.json"))
ch = m["changes"][int(k) - 1]
out = {"property": pid, "source": "independent sub-agent given only the property text and a scratch worktree",
       "summary": ch.get("summary"), "needs_to_manifest": ch.get("needs_to_manifest"),
       "agent_commands_run": ch.get("commands_run"),
       "confirmed_by_me": {"how": "tools/confirm_seeded.sh in the scratch worktree: demo passes on the clean tree, fails with the patch; `cargo test --offline --lib --tests` (the 45 pinned tests) passes with the patch; builds with --features verif,csv,arrow,parquet",
                           "demo_placement": "tests/demo_seed.rs"},
       "detected_by": None}
json.dump(out, open(f"{d}/meta.json", "w"), indent=1)
PY
echo kept $D
