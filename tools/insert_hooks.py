#!/usr/bin/env python3
"""One-shot helper used to apply the add-only verif hooks to /repo (kept for the record).
Each entry: (file, anchor text that must occur exactly `count` times, text inserted AFTER the anchor line(s))."""
import sys
def ins(path, anchor, add, count=1, which=None, before=False):
    s = open(path).read()
    n = s.count(anchor)
    assert n == count, (path, anchor, n)
    idxs = []
    start = 0
    for _ in range(n):
        i = s.index(anchor, start); idxs.append(i); start = i + len(anchor)
    sel = idxs if which is None else [idxs[w] for w in which]
    for i in sorted(sel, reverse=True):
        if before:
            s = s[:i] + add + s[i:]
        else:
            j = i + len(anchor)
            s = s[:j] + add + s[j:]
    open(path, 'w').write(s)
