#!/bin/sh
# run inside a `vp run --with-repo` snapshot: point the harness at the /repo snapshot, then run the thorough tiers
sed -i "s#path = \"/repo\"#path = \"$VP_RUN_REPO\"#" mc/Cargo.toml
./tools/run_all.sh thorough "$@"
