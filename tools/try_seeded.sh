#!/bin/sh
# usage: try_seeded.sh <patch> <tier> <ID> [<ID>...]   applies patch to /repo, runs the checks, reverts. Prints one line per check.
P=$1; TIER=$2; shift 2
git -C /repo diff --quiet || { echo "/repo not clean"; exit 2; }
git -C /repo apply "$P" || { echo "patch does not apply"; exit 2; }
for ID in "$@"; do
  /verif/check.sh $ID $TIER >/verif/.scratch/try.$ID.log 2>&1; RC=$?
  echo "CHECK $ID exit=$RC $(grep -c '^VIOLATION' /verif/.scratch/try.$ID.log) violation lines; keys: $(grep -o 'key=[^ ]*' /verif/.scratch/try.$ID.log | sort | uniq -c | head -5 | tr '\n' ';')"
done
git -C /repo checkout -- .
