#!/bin/sh
# usage: tools/run_all.sh <quick|thorough> [IDs...]   runs the claimed checks in sequence; one summary line per check
DIR=$(cd "$(dirname "$0")/.." && pwd)
TIER=${1:-quick}; shift
IDS="$@"
[ -z "$IDS" ] && IDS=$(python3 -c "import json; print(' '.join(c['property_id'] for c in json.load(open('$DIR/MANIFEST.json'))['checks']))")
mkdir -p $DIR/.scratch
for ID in $IDS; do
  S=$(date +%s)
  $DIR/check.sh $ID $TIER >$DIR/.scratch/all.$ID.$TIER.log 2>&1; RC=$?
  E=$(date +%s)
  echo "$ID $TIER exit=$RC wall=$((E-S))s $(grep "^\[$ID\] tier" $DIR/.scratch/all.$ID.$TIER.log | cut -c1-220)"
done
