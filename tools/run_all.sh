#!/bin/sh
# usage: run_all.sh <quick|thorough>   runs every claimed check in sequence; prints one summary line per check
TIER=${1:-quick}
for ID in $(python3 -c "import json; print(' '.join(c['property_id'] for c in json.load(open('/verif/MANIFEST.json'))['checks']))"); do
  S=$(date +%s)
  /verif/check.sh $ID $TIER >/verif/.scratch/all.$ID.$TIER.log 2>&1; RC=$?
  E=$(date +%s)
  echo "$ID $TIER exit=$RC wall=$((E-S))s $(grep "^\[$ID\] tier" /verif/.scratch/all.$ID.$TIER.log | cut -c1-200)"
done
