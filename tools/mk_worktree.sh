#!/bin/sh
# usage: mk_worktree.sh <name>   -> creates /tmp/wt-<name> (detached worktree of /repo HEAD) with a pre-seeded target dir
set -e
N=$1
git -C /repo worktree add --detach /tmp/wt-$N HEAD >/dev/null 2>&1
mkdir -p /tmp/wt-$N/OUT
cp -r /repo/target /tmp/wt-$N/target 2>/dev/null || true
echo /tmp/wt-$N
