#!/bin/sh
# usage: confirm_seeded.sh <worktree> <k> <ID>
# Confirms in the scratch worktree: demo passes on clean tree, fails with patch k, pinned suite (unit + integration) passes with patch k.
WT=$1; K=$2; ID=$3; FEAT=${4:-}
[ -n "$FEAT" ] && FEAT="--features $FEAT"
cd $WT || exit 2
git checkout -q -- src 2>/dev/null
rm -f tests/demo_*.rs
cp OUT/demo$K.rs tests/demo_seed.rs
echo "--- demo on clean tree (must pass)"
cargo test --offline $FEAT --test demo_seed >/tmp/confirm.$$.log 2>&1; A=$?
tail -3 /tmp/confirm.$$.log
git apply OUT/patch$K.diff || { echo "PATCH DOES NOT APPLY"; exit 2; }
echo "--- demo with patch (must fail)"
cargo test --offline $FEAT --test demo_seed >/tmp/confirm.$$.log 2>&1; B=$?
grep -E "test result|panicked" /tmp/confirm.$$.log | head -5
rm -f tests/demo_seed.rs
echo "--- pinned suite with patch (must pass)"
cargo test --offline --lib --tests >/tmp/confirm.$$.log 2>&1; C=$?
if [ -n "$FEAT" ]; then cargo test --offline $FEAT --lib --tests >>/tmp/confirm.$$.log 2>&1; C2=$?; [ $C2 -ne 0 ] && C=$C2; fi
grep -E "test result" /tmp/confirm.$$.log
echo "--- feature build with patch"
cargo build --offline --features verif,csv,arrow,parquet >/tmp/confirm.$$.log 2>&1; D=$?
git checkout -q -- src
rm -f /tmp/confirm.$$.log
echo "RESULT $ID/$K: demo_clean_pass=$A demo_patched_fail=$B suite_patched_pass=$C feature_build=$D"
[ $A -eq 0 ] && [ $B -ne 0 ] && [ $C -eq 0 ] && [ $D -eq 0 ]
