#!/usr/bin/env python3
"""Second-round prompt: same task, but lists the changes already known for the property so that new ones differ."""
import json, sys, glob, subprocess
pid = sys.argv[1]
wt = sys.argv[2] if len(sys.argv) > 2 else f"/tmp/wt-{pid}"
base = subprocess.run(["python3", "/verif/tools/agent_prompt.py", pid, wt], capture_output=True, text=True).stdout
known = []
for f in sorted(glob.glob(f"/verif/seeded/{pid}-*/meta.json")):
    m = json.load(open(f))
    known.append("- " + (m.get("summary") or "").strip().replace("\n", " ")[:600])
extra = "\n\nALREADY KNOWN CHANGES for this property (produced earlier by someone else). Do NOT repeat these or close variants of them; find changes of a DIFFERENT kind (different code site, different mechanism, different trigger):\n" + "\n".join(known) + "\n\nAlso note: the pinned suite that must keep passing is `cargo test --offline --lib --tests` (about 20 s); the full `cargo test --offline` additionally runs doc tests, one of which takes about 2.5 minutes — run the doc tests once at the end.\n"
print(base.replace("For each change k in {1,2} also write a demonstration", extra + "\nFor each change k in {1,2} also write a demonstration"))
