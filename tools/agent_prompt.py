#!/usr/bin/env python3
import json, sys
pid = sys.argv[1]
wt = sys.argv[2] if len(sys.argv) > 2 else f"/tmp/wt-{pid}"
for l in open('/verif/properties.jsonl'):
    d = json.loads(l)
    if d['id'] == pid:
        break
print(f"""You are working alone in a scratch git worktree of the open-source Rust library mini-mcmc (MCMC samplers: Metropolis-Hastings, Gibbs, HMC, NUTS; diagnostics; CSV/Arrow/Parquet export) at {wt}. Work ONLY inside {wt}. Do not read or touch /repo or /verif (anything under /verif is off limits). The sandbox is offline: always pass --offline to cargo. A pre-built target directory is already in {wt}/target, so `cargo test --offline` only recompiles the library itself.

Here is a semantic property the library is supposed to satisfy:

TITLE: {d['title']}
STATEMENT: {d['statement']}
QUANTIFIED OVER: {d['quantifier']['text']}
RELEVANT FILES: {', '.join(d['anchors']['files'])}

YOUR TASK: produce TWO different, independent, realistic changes to the library's source code (files under src/, outside of `#[cfg(test)]` modules) that each BREAK this property while
 (a) the crate still compiles (with and without `--features verif,csv,arrow,parquet`; lines guarded by `#[cfg(feature = "verif")]` are verification hooks: leave them in place and do not rely on them),
 (b) the existing test suite still passes unedited: run `cargo test --offline` in {wt} (unit tests, integration tests in tests/, doc tests) and make sure everything passes with each change applied,
 (c) each change needs something SPECIFIC to manifest: a particular input value or shape, an unusual parameter, a boundary case, a multi-step sequence of calls, a particular thread interleaving or timing, a fault at a particular point, or two cooperating code sites that each look fine alone. Do NOT produce a change that ordinary use would expose at once (e.g. one that makes every call return garbage). Think of the kind of subtle bug a plausible refactoring, optimisation or 'cleanup' would introduce.
The two changes should be of different kinds (different code sites or different mechanisms).

For each change k in {{1,2}} also write a demonstration: a small Rust integration test file (to be placed at {wt}/tests/demo_{pid.lower()}_k.rs; it may use only the crate's public API and the crate's existing dev-dependencies) that FAILS with change k applied and PASSES on the unchanged tree. Verify both directions yourself (e.g. `git stash` / `git stash pop`, or apply/revert the patch) with `cargo test --offline --test demo_{pid.lower()}_k`.

DELIVERABLES (create the directory {wt}/OUT):
  {wt}/OUT/patch1.diff and {wt}/OUT/patch2.diff : output of `git diff -- src` for each change alone (each must apply with `git apply` to a clean checkout of the current HEAD; they do not need to combine),
  {wt}/OUT/demo1.rs and {wt}/OUT/demo2.rs : the demonstration tests,
  {wt}/OUT/meta.json : {{"property": "{pid}", "changes": [{{"patch": "patch1.diff", "demo": "demo1.rs", "summary": "...", "needs_to_manifest": "...", "commands_run": ["..."], "full_suite_passes_with_change": true, "demo_fails_with_change": true, "demo_passes_without_change": true}}, ...]}}.
When you are done, leave the worktree CLEAN with respect to src/ (both changes reverted; `git status` should show only OUT/ and possibly tests/demo_* as untracked). Do not commit anything. Keep your final answer short: one paragraph per change.""")
