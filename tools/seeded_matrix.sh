#!/bin/sh
# usage: seeded_matrix.sh [tier]   runs every seeded change against its property's check; updates seeded/*/meta.json (detected_by)
TIER=${1:-quick}
for D in /verif/seeded/*/; do
  N=$(basename $D); ID=${N%-*}
  case "$N" in _*) continue;; esac
  OUT=$(/verif/tools/try_seeded.sh $D/patch.diff $TIER $ID 2>&1 | grep "^CHECK")
  echo "$N :: $OUT"
  python3 - "$D/meta.json" "$OUT" "$TIER" <<'PY'
import json, sys, re
p, out, tier = sys.argv[1:4]
m = json.load(open(p))
rc = re.search(r"exit=(\d+)", out)
keys = re.findall(r"key=([^;\s]+)", out)
m["detected_by"] = {"check": out.split()[1] if out else None, "tier": tier, "exit": int(rc.group(1)) if rc else None, "violation_keys": sorted(set(keys))}
json.dump(m, open(p, "w"), indent=1)
PY
done
