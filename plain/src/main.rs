//! Prints the behaviour digests of the library built WITHOUT the verification hooks (see mc `HOOKS`).
#[path = "../../mc/src/digest.rs"]
mod digest;

fn main() {
    let dir = std::env::args().nth(1).unwrap_or_else(|| ".".to_string());
    for (k, v) in digest::digests(&dir) {
        println!("{k}\t{v:016x}");
    }
}
