#!/bin/sh
# usage: run_tlc.sh <N> [workdir]   -> prints "TLC N=<N> states=<distinct> ok" or the TLC error
DIR=$(cd "$(dirname "$0")" && pwd)
N=$1; WD=${2:-$DIR/../.scratch/tlc-$N-$$}
mkdir -p "$WD" && cp "$DIR/Reporter.tla" "$WD/" && cd "$WD" || exit 2
cat > Reporter.cfg <<CFG
CONSTANT N = $N
SPECIFICATION Spec
INVARIANT Inv
PROPERTY Termination
CFG
tlc -workers 2 -nowarning Reporter.tla > tlc.out 2>&1
RC=$?
S=$(grep -o "[0-9]* distinct states found" tlc.out | tail -1 | cut -d' ' -f1)
if [ $RC -eq 0 ] && grep -q "Model checking completed. No error has been found" tlc.out; then
  echo "TLC N=$N states=$S ok"
else
  echo "TLC N=$N FAILED rc=$RC"; tail -30 tlc.out
fi
cd / && rm -rf "$WD"
[ $RC -eq 0 ]
