------------------------------ MODULE Reporter ------------------------------
(* Abstract model of the progress reporter of run_progress (src/core.rs, src/nuts.rs).           *)
(* One step = one reporter iteration in which the final statistics messages of the chains shown   *)
(* in the slots of `arrive` have become visible.  Chains without a bar are activated in id order  *)
(* when a bar is recycled; whether their final message is already there is decided lazily, when   *)
(* they hold a slot (sound: a worker's only shared action is `send` on its own channel).          *)
(* This is the same model as mc/src/props/c10.rs::mstep; TLC's reachable-state count is compared  *)
(* with the Rust BFS by the C10 check, and the same invariants / termination are checked here     *)
(* with an independent, standard model checker.                                                   *)
EXTENDS Naturals, Sequences, FiniteSets

CONSTANT N
ASSUME N \in Nat /\ N >= 1

VARIABLES active, next, fin, done

vars == <<active, next, fin, done>>

Min(a, b) == IF a < b THEN a ELSE b

Init == /\ active = [i \in 1..Min(N, 5) |-> i - 1]
        /\ next = Min(N, 5)
        /\ fin = 0
        /\ done = FALSE

(* Walk the slots in order: a slot in `arrive` is refilled with the next waiting chain if there is *)
(* one, otherwise it is removed.  Returns <<new active sequence, new next>>.                        *)
RECURSIVE Refill(_, _, _, _, _)
Refill(act, arrive, i, nxt, out) ==
    IF i > Len(act) THEN <<out, nxt>>
    ELSE IF i \in arrive
         THEN IF nxt < N
              THEN Refill(act, arrive, i + 1, nxt + 1, Append(out, nxt))
              ELSE Refill(act, arrive, i + 1, nxt, out)
         ELSE Refill(act, arrive, i + 1, nxt, Append(out, act[i]))

Step(arrive) ==
    /\ ~done
    /\ LET r == Refill(active, arrive, 1, next, <<>>)
           f == fin + Cardinality(arrive)
       IN  /\ active' = r[1]
           /\ next' = r[2]
           /\ fin' = f
           /\ done' = (f >= N)

Idle == Step({})
Progress == \E arrive \in (SUBSET (1..Len(active))) \ {{}} : Step(arrive)

Next == Idle \/ Progress \/ (done /\ UNCHANGED vars)

Spec == Init /\ [][Next]_vars /\ WF_vars(Progress)

Ids(s) == {s[i] : i \in 1..Len(s)}

Inv == /\ fin <= N
       /\ next <= N
       /\ Len(active) <= 5
       /\ Cardinality(Ids(active)) = Len(active)          \* a chain never holds two bars
       /\ \A i \in 1..Len(active) : active[i] < next
       /\ fin + Len(active) + (N - next) = N               \* every chain is finished, shown or waiting: counted once
       /\ (done => fin = N)                                 \* the reporter exits only when every chain was counted

Termination == <>done
=============================================================================
