#!/bin/sh
# usage: ./check.sh <ID> <quick|thorough>      run one property's check (rebuilds from /repo's working tree first)
#        ./check.sh <ID> --replay <file>       re-run one recorded violating case without the explorer
# exit : 0 held on everything explored | 1 "VIOLATION property=<id> replay=<path>" printed | >=2 machinery failure
DIR=$(cd "$(dirname "$0")" && pwd)
export VERIF_DIR="$DIR"
export CARGO_NET_OFFLINE=true
mkdir -p "$DIR/.scratch" "$DIR/evidence" "$DIR/replays"
cd "$DIR/mc" || exit 2
if ! cargo build --release --offline >"$DIR/.scratch/build.$$.log" 2>&1; then
    tail -40 "$DIR/.scratch/build.$$.log"
    echo "MACHINERY-ERROR: harness build failed (see above); no verdict"
    rm -f "$DIR/.scratch/build.$$.log"
    exit 2
fi
rm -f "$DIR/.scratch/build.$$.log"
exec "$DIR/mc/target/release/mc" "$@"
